#!/usr/bin/env python3
"""Rebuilds section 0 of DESIGN.md from design_sec0_head.md, design_sec0_tail.md,
the evidence files of the last quick run and seeded/results.tsv."""
import json, os, re, glob
V='/verif'
WHAT={
"C01":"VP8L pixel kernels of encoder and decoder = spec functions, forward/inverse pairs inverse, predictor dispatch, add/sub-green and cross-colour loops (quantified); inverse-transform chain unpacks a packed palette out of place",
"C02":"chunk size arithmetic; simple RIFF writers of mux and Encode (ghost byte log); writeRIFF call sites; VP8X flags of writeRIFFExtended; VP8X header of assembleExtended; VP8 frame tag / start code / dimensions / partition table of assembleFrame, emitFrame size guards; ALPH header byte",
"C03":"decoder pixel kernels and the 14 predictors = spec; add-green and cross-colour inverse loops; palette inverse out of place",
"C04":"inverse DCT (full, DC, AC3) and inverse WHT = RFC 6386 14.3; loop-filter primitives (dsp and the decoder's own copies), edge-loop and macroblock dispatch, clip tables = RFC 6386 15; decoder's inlined DC transform; filter strength table = 9.6/15.2; dequantisation tables and per-segment factors = 14.1/9.6; bool decoder step (GetBit, GetBitAlt tables) = 7.3; ALPH header dispatch, raw plane, horizontal unfilter row",
"C05":"no panic + termination: internal/container, mux (demux and writer helpers), lossless bit reader with its invariant, VP8L and ALPH header decoders, animation decoder helpers, dsp kernels under contract",
"C06":"encoder iTransformOne = decoder transformOne = spec (all inputs), inverse WHT; encoder quantiser factors = decoder dequantiser factors = RFC; segment map off => all macroblocks in segment 0; frame header announces the partition sizes",
"C07":"raw ALPH payload is the plane filtered as the header says; DecodeAlpha obeys the header; per-iteration rule of the three forward filters; horizontal unfilter row; palette inverse out of place (lossless alpha)",
"C08":"key frame resets the previous-frame rectangle; blend admissibility lemma; similar pixels have equal alpha; (known finding)",
"C09":"blend = spec for all inputs; key-frame predicate sound; Reset; clearCanvas; compositeFrame source/destination/blend call sites; NextFrame/applyDispose/fillRect: which frame is disposed, where, with what",
"C11":"pooled lossy decoder, lossless decoder, lossless encoder and lossy encoder reset field by field with coverage obligations; filter table fully rewritten",
"C13":"portable kernels = architecture-independent spec; module type-checks for GOARCH=386 and arm; amd64 up-sampling wrapper: scratch rows disjoint, index-safe",
"C14":"sizes = bytes written; chunk writer byte layout; ANMF header fields written = fields parsed back (offsets/2, dims-1, duration, dispose/blend bits), ALPH/image sub-chunk; VP8X header and flags; simple layout only without ALPH chunk; ALPH-prefix convention",
"C15":"Encode passes the caller's options unchanged to the lossless encoder on both paths; writeRIFF passes blobs unchanged; VP8X flags announce exactly the blobs present; chunk writer copies bytes",
"C16":"DecodeConfig colour model = Decode's result type; still VP8X file has a frame; header parsers of container and demuxer agree; VP8L header decoder fields",
"C17":"simple-format chunk fully inside the buffer; extended still file needs its image; header reads exact; lossless bit reader and bool decoder loaders never read past the buffer and raise end-of-stream",
"C18":"lossy animation frame payload = ALPH chunk (exact length, bytes, pad) + VP8 bitstream; alpha unquantised at both call sites; muxer never writes an ALPH-prefixed frame in the simple layout; similar pixels have equal alpha",
"C19":"read footprints of imageHasAlpha and extractAlphaWith stay inside the bounds (row y, first w pixels, alpha byte)",
"C20":"validateConfig ranges; resolve* = documented defaults; encoder/alpha-encoder configuration at the call sites",
}
rows=[]
tot_o=tot_f=0
for pid in sorted(WHAT):
    f=f'{V}/evidence/{pid}.json'
    if not os.path.exists(f): continue
    e=json.load(open(f)); c=e['coverage']
    nf=len(c['functions_under_contract']); no=c['obligations']; nu=len(c['undecided_not_claimed'])
    tot_o+=no; tot_f+=nf
    rows.append(f"| {pid} | {nf} | {no} | {nu} | {e['wall_s']:.0f} | {WHAT[pid]} |")
tab3 = "### 0.3 What is claimed (all partial except where stated; details per check\nin MANIFEST.json)\n\n" \
 "Numbers from the last quick run on the reference tree (obligations = discharged; the\n`not claimed` column counts obligations of the same functions that are undecided or\nrefuted on the reference tree and therefore outside the claim).\n\n" \
 "| id | functions/lemmas | obligations | not claimed | s | what the obligations say |\n|----|----|----|----|----|----|\n" + "\n".join(rows) + "\n\n" \
 f"Sum over properties (functions shared between properties are counted once per property): {tot_o} obligations.\n\n" \
 "Not applicable: **C10** (goroutine interleavings; unchanged from section 6)\nand **C12** (the GOMAXPROCS-dependent code is goroutine fork-join and\nworker-count-selected algorithms; the engine has no model of `go`\nstatements, so the partition lemmas planned in section 6 could not be stated\non the real code; nothing is claimed rather than proving a model).\n"
# seeds
seedrows=[]
res={}
p=f'{V}/seeded/results.tsv'
if os.path.exists(p):
    for l in open(p):
        a=l.rstrip('\n').split('\t')
        if len(a)>=5: res[a[0]]=a
caught=missed=0
for d in sorted(glob.glob(f'{V}/seeded/C*/')):
    name=os.path.basename(d.rstrip('/'))
    if name.startswith('C12'):
        seedrows.append(f"| {name} | not applicable |"); continue
    a=res.get(name)
    if not a: seedrows.append(f"| {name} | (not run) |"); continue
    rc=a[2]; first=a[4].replace('failed obligation: ','').replace('|','\\|')
    if rc=='1':
        caught+=1; seedrows.append(f"| {name} | `{first[:170]}` |")
    elif rc=='0':
        missed+=1; seedrows.append(f"| {name} | **missed** |")
    else:
        seedrows.append(f"| {name} | run failed (exit {rc}) |")
tab7 = "### 0.7 Seeded changes (`/verif/seeded/<name>/`)\n\n" \
 f"{len(seedrows)} changes written by independent sub-agents that saw only the property text\nand a scratch worktree (four rounds: 19, 14, 8 and 8 changes; the third aimed at the code brought under contract last, the fourth - C02, C03, C04, C05, C09, C14, C16, C17 - written in worktrees from which the contract files had been removed); each was confirmed here (demo passes without, fails\nwith the change; the 958 tests pass with it) by `seeded/confirm_seed.sh`.\n`seeded/run_seed_par.sh <seed> <property>` applies one in a scratch worktree and runs the\ncheck there; `seeded/run_all_seeds.sh` runs all of them and writes `seeded/results.tsv`.\n" \
 f"Last run: {caught} caught, {missed} missed. The misses: C03-packed-table-alpha and C03-unused-group-alphabet (readHuffmanCodes carries no contract), C15-xmp-size-from-exif (the RIFF size of assembleExtended over the frame loop: section 0.4), C14-still-canvas-unchecked (Muxer.validate carries no contract: the attempt of this session is described in section 0.4).\n\n| seed | caught by (first failing obligation) |\n|---|---|\n" + "\n".join(seedrows) + "\n"
head=open(f'{V}/design_sec0_head.md').read().replace('@@TABLES@@', tab3)
tail=open(f'{V}/design_sec0_tail.md').read()
layout = """### 0.8 Layout as built, and where it deviates from sections 1-9

```
/verif/DESIGN.md MANIFEST.json KNOWN_FINDINGS.txt expected_obligations.json
/verif/govc/cmd/govc/*.go     the verifier (one package: term, value, state, exec, calls, world, spec, verify, solve, check, replay, main)
/verif/bin/govc               built by setup_cmd (git-ignored)
/verif/evidence/Cxx.json      rewritten by every run
/verif/out/                   replay files and logs (scratch, git-ignored)
/verif/seeded/<name>/         patch.diff, demo test, meta.json, notes.md; confirm_seed.sh, run_seed.sh, run_seed_par.sh, run_all_seeds.sh, results.tsv
/verif/findings/              demonstration tests for two repaired defects
/verif/gen_manifest.py gen_design_sec0.py design_sec0_head.md design_sec0_tail.md run_all_quick.sh
/repo/<pkg>/zz_contracts_verif.go, zz_spec_verif.go   (//go:build verif; contracts are comment-only, spec functions are Go)
```

Deviations from the plan: no separate `spec/`, `selftest/` or `replay/` directories
(spec functions live next to the code behind the build tag, the must-fail corpus is
`seeded/`, replay tests are generated); no `zz_hooks_verif.go` (no run-time hook was
needed); a contract that cannot be attached is reported as a violation
(`no-failing-input-found`), not as a third exit code; no bounded stand-ins were built
(nothing is labelled bounded); no Houdini inference; floats stayed uninterpreted; C12
became not applicable; the quick suite takes about 26 minutes, not 10-12 (18 checks,
2 to 6 minutes for the large ones), a full `bin/govc baseline` (= every thorough check)
about 25 minutes.
"""
sec0 = head.rstrip('\n') + "\n\n" + tail.rstrip('\n') + "\n\n" + tab7 + "\n" + layout + "\n"
s=open(f'{V}/DESIGN.md').read()
a=s.index("## 0. As built"); b=s.index("\nContents\n")
open(f'{V}/DESIGN.md','w').write(s[:a]+sec0+s[b:])
print("section 0 rebuilt:", len(sec0), "chars;", caught, "caught", missed, "missed")
