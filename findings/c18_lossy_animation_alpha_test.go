package webp_test

import (
	"bytes"
	"image"
	"image/color"
	"testing"
	"time"

	_ "github.com/deepteams/webp"
	"github.com/deepteams/webp/animation"
)

func mkFrame(w, h, shift int) *image.NRGBA {
	img := image.NewNRGBA(image.Rect(0, 0, w, h))
	for y := 0; y < h; y++ {
		for x := 0; x < w; x++ {
			a := uint8(0)
			if (x+shift)%16 < 8 {
				a = 255
			} else if y%8 < 4 {
				a = uint8((x * 7 + y*3 + shift) & 0xff)
			}
			img.SetNRGBA(x, y, color.NRGBA{uint8(x * 4), uint8(y * 4), uint8(shift * 20), a})
		}
	}
	return img
}

func TestC18LossyAnimationKeepsAlpha(t *testing.T) {
	for cfg := 0; cfg < 16; cfg++ {
		mixed := cfg&1 != 0
		kmax := 0
		if cfg&2 != 0 {
			kmax = 1
		}
		dur := 100 * time.Millisecond
		if cfg&8 != 0 {
			dur = 0
		}
		nframes := 3
		if cfg&4 != 0 {
			nframes = 1
		}
		var buf bytes.Buffer
		enc := animation.NewEncoder(&buf, 64, 48, &animation.EncodeOptions{Quality: 75, Lossless: false, AllowMixed: mixed, Kmin: kmax, Kmax: kmax})
		frames := []*image.NRGBA{mkFrame(64, 48, 0), mkFrame(64, 48, 3), mkFrame(64, 48, 9)}[:nframes]
		for _, f := range frames {
			if err := enc.AddFrame(f, dur); err != nil {
				t.Errorf("cfg=%d: %v", cfg, err)
			continue
			}
		}
		if err := enc.Close(); err != nil {
			t.Errorf("cfg=%d: %v", cfg, err)
			continue
		}
		anim, err := animation.DecodeBytes(buf.Bytes())
		if err != nil {
			t.Errorf("cfg=%d: %v", cfg, err)
			continue
		}
		if err := anim.DecodeFrames(); err != nil {
			t.Errorf("cfg=%d: %v", cfg, err)
			continue
		}
		dec, err := animation.NewAnimDecoder(anim)
		if err != nil {
			t.Errorf("cfg=%d: %v", cfg, err)
			continue
		}
		for i, f := range frames {
			got, _, err := dec.NextFrame()
			if err != nil {
				t.Fatalf("frame %d: %v", i, err)
			}
			bad := 0
			for y := 0; y < 48; y++ {
				for x := 0; x < 64; x++ {
					if got.NRGBAAt(x, y).A != f.NRGBAAt(x, y).A {
						if bad < 6 {
							t.Logf("x=%d y=%d got %v want %v", x, y, got.NRGBAAt(x, y), f.NRGBAAt(x, y))
						}
						bad++
					}
				}
			}
			if bad != 0 {
				t.Errorf("cfg=%d mixed=%v frame %d: %d pixels with wrong alpha", cfg, mixed, i, bad)
			}
		}
	}
}
