package webp

import (
	"bytes"
	"image"
	"image/color"
	"testing"
)

// A <=16-colour image at Method 6 / Quality 100: palette with pixel packing
// plus further transforms (the case the property text names).
func TestPaletteHighEffortRoundTrip(t *testing.T) {
	img := image.NewNRGBA(image.Rect(0, 0, 64, 48))
	pal := []color.NRGBA{{255, 0, 0, 255}, {0, 255, 0, 255}, {0, 0, 255, 255}, {10, 20, 30, 255}, {200, 100, 50, 128}, {1, 2, 3, 255}}
	for y := 0; y < 48; y++ {
		for x := 0; x < 64; x++ {
			img.SetNRGBA(x, y, pal[(x*7+y*13+(x*y)%5)%len(pal)])
		}
	}
	for _, m := range []int{4, 5, 6} {
		for _, q := range []float32{75, 90, 100} {
			var buf bytes.Buffer
			if err := Encode(&buf, img, &EncoderOptions{Lossless: true, Quality: q, Method: m}); err != nil {
				t.Fatal(err)
			}
			dec, err := Decode(bytes.NewReader(buf.Bytes()))
			if err != nil {
				t.Fatalf("m=%d q=%v: %v", m, q, err)
			}
			bad := 0
			for y := 0; y < 48; y++ {
				for x := 0; x < 64; x++ {
					if color.NRGBAModel.Convert(dec.At(x, y)).(color.NRGBA) != img.NRGBAAt(x, y) {
						bad++
					}
				}
			}
			if bad != 0 {
				t.Errorf("m=%d q=%v: %d wrong pixels", m, q, bad)
			}
		}
	}
}
