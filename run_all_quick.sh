#!/bin/bash
# Runs every registered quick check on the current /repo tree; prints one line per property.
cd /verif
for p in $(python3 -c "import json;print(' '.join(c['property_id'] for c in json.load(open('MANIFEST.json'))['checks']))"); do
  s=$(date +%s)
  out=$(timeout 1700 bin/govc check -property $p -tier quick 2>&1); rc=$?
  e=$(date +%s)
  echo "$p rc=$rc $((e-s))s :: $(echo "$out" | tail -1)"
  echo "$out" | grep -E "^(VIOLATION|KNOWN-FINDING|failed obligation)" | cut -c1-220
done
