package main

import (
	"context"
	"fmt"
	"os"
	"os/exec"
	"path/filepath"
	"strings"
	"sync"
	"time"
)

var tmpDir string

func initTmp() {
	d, err := os.MkdirTemp("", "govc-")
	if err != nil {
		panic(err)
	}
	tmpDir = d
}

func cleanupTmp() {
	if tmpDir != "" {
		os.RemoveAll(tmpDir)
	}
}

type solverRes struct {
	status string
	solver string
	out    string
	secs   float64
}

func runSolver(ctx context.Context, name string, file string, timeout time.Duration) solverRes {
	start := time.Now()
	var cmd *exec.Cmd
	secs := int(timeout.Seconds())
	if secs < 1 {
		secs = 1
	}
	switch name {
	case "z3-new":
		cmd = exec.CommandContext(ctx, "z3-new", fmt.Sprintf("-T:%d", secs), file)
	case "z3":
		cmd = exec.CommandContext(ctx, "z3", fmt.Sprintf("-T:%d", secs), file)
	case "cvc5":
		cmd = exec.CommandContext(ctx, "cvc5", "--lang", "smt2", fmt.Sprintf("--tlimit=%d", secs*1000), file+".cvc5")
	}
	out, _ := cmd.CombinedOutput()
	s := string(out)
	first := ""
	for _, ln := range strings.Split(s, "\n") {
		t := strings.TrimSpace(ln)
		if t == "" || strings.HasPrefix(t, "WARNING") || strings.HasPrefix(t, "(warning") {
			continue
		}
		first = t
		break
	}
	st := "unknown"
	switch first {
	case "sat", "unsat":
		st = first
	case "timeout":
		st = "timeout"
	default:
		if strings.Contains(s, "timeout") || strings.Contains(s, "interrupted") {
			st = "timeout"
		} else if strings.Contains(first, "error") {
			st = "error"
		}
	}
	return solverRes{st, name, s, time.Since(start).Seconds()}
}

var queryCtr int
var queryMu sync.Mutex

// solveQuery races the solvers; first sat/unsat wins.
func solveQuery(q string, quick time.Duration, full time.Duration) solverRes {
	return solveQueryL(q, "ALL", quick, full)
}

func solveQueryL(q string, logic string, quick time.Duration, full time.Duration) solverRes {
	queryMu.Lock()
	queryCtr++
	id := queryCtr
	queryMu.Unlock()
	file := filepath.Join(tmpDir, fmt.Sprintf("q%d.smt2", id))
	os.WriteFile(file, []byte(q), 0o644)
	// cvc5 is used as a prover only: with model production enabled it rejects
	// some array terms ("write-chains connecting two different constant
	// arrays"); models come from z3.
	qc := q
	if i := strings.Index(qc, "(get-value"); i >= 0 {
		qc = qc[:i]
	}
	noCvc5 := strings.Contains(q, "(lambda ") // array comprehensions are z3 syntax
	os.WriteFile(file+".cvc5", []byte("(set-logic "+logic+")\n"+qc), 0o644)
	defer os.Remove(file)
	defer os.Remove(file + ".cvc5")
	start := time.Now()
	ctx := context.Background()
	// stage 1: z3 (short) and cvc5 side by side; stage 2: all three, full time
	race := func(names []string, tmo []time.Duration) (solverRes, []string, bool) {
		cctx, cancel := context.WithCancel(ctx)
		defer cancel()
		ch := make(chan solverRes, len(names))
		for i, n := range names {
			go func(i int, n string, d time.Duration) {
				if i > 0 && n == "z3" {
					// the older z3 only joins when the others have not answered
					// within two seconds (most obligations are decided by then)
					select {
					case <-cctx.Done():
						ch <- solverRes{"unknown", n, "not started", 0}
						return
					case <-time.After(2 * time.Second):
					}
				}
				ch <- runSolver(cctx, n, file, d)
			}(i, n, tmo[i])
		}
		var outs []string
		var last solverRes
		for range names {
			x := <-ch
			if x.status == "sat" || x.status == "unsat" {
				x.secs = time.Since(start).Seconds()
				return x, nil, true
			}
			outs = append(outs, x.solver+": "+strings.TrimSpace(firstLines(x.out, 3)))
			last = x
		}
		return last, outs, false
	}
	short := quick * 3
	if short > full {
		short = full
	}
	if noCvc5 {
		// one race for the whole time: restarting the same solvers after a
		// short first stage only repeats work
		last, outs, ok := race([]string{"z3-new", "z3"}, []time.Duration{full, full})
		if ok {
			return last
		}
		st := "unknown"
		if last.status == "timeout" {
			st = "timeout"
		}
		return solverRes{st, "none", strings.Join(outs, " | "), time.Since(start).Seconds()}
	}
	_ = short
	last, outs, ok := race([]string{"z3-new", "cvc5", "z3"}, []time.Duration{full, full, full})
	if ok {
		return last
	}
	st := "unknown"
	if last.status == "timeout" {
		st = "timeout"
	}
	return solverRes{st, "none", strings.Join(outs, " | "), time.Since(start).Seconds()}
}

func firstLines(s string, n int) string {
	ls := strings.Split(s, "\n")
	if len(ls) > n {
		ls = ls[:n]
	}
	return strings.Join(ls, " ")
}

// discharge solves all obligations of a function result in parallel.
func discharge(rs []*FnResult, par int, quick, full time.Duration) {
	type job struct {
		r *FnResult
		o *Obligation
	}
	var jobs []job
	for _, r := range rs {
		for _, o := range r.Obls {
			if o.Status == "" {
				jobs = append(jobs, job{r, o})
			}
		}
	}
	// queries must be built sequentially (term table is not thread-safe)
	queries := make([]string, len(jobs))
	qfQueries := make([]string, len(jobs))
	nearQueries := make([]string, len(jobs))
	for i, j := range jobs {
		base := j.r.Assumes
		if j.o.caseAssumes != nil {
			base = j.o.caseAssumes
		}
		as := relevant(base[:j.o.NAssume], []*Term{j.o.PC, j.o.Cond})
		as = append(as, j.o.PC)
		var gv []*Term
		for _, in := range j.o.Inputs {
			if in.Term.S.Kind != SArray {
				gv = append(gv, in.Term)
			}
		}
		j.o.HasQuant = hasQuant(append(as, j.o.Cond))
		j.o.QuerySz = termSize(append(as, j.o.Cond))
		queries[i] = BuildQuery(as, j.o.Cond, gv)
		if !hasQuant([]*Term{j.o.Cond, j.o.PC}) && len(as) >= 30 {
			// first attempt: only the quantifier-free assumptions that mention
			// a symbol of the goal itself (no transitive closure)
			live := map[string]bool{}
			for _, g := range []*Term{j.o.PC, j.o.Cond} {
				for sy := range symbolsOf(g) {
					live[sy] = true
				}
			}
			var near []*Term
			for _, a := range as {
				if hasQuant([]*Term{a}) {
					continue
				}
				for sy := range symbolsOf(a) {
					if live[sy] {
						near = append(near, a)
						break
					}
				}
			}
			if 2*len(near) <= len(as) {
				nearQueries[i] = BuildQuery(near, j.o.Cond, gv)
			}
		}
		if j.o.HasQuant && !hasQuant([]*Term{j.o.Cond, j.o.PC}) {
			// quantified assumptions dropped: unsat of the weaker query is
			// still a proof, and the solvers are far quicker on it
			var qf []*Term
			for _, a := range as {
				if !hasQuant([]*Term{a}) {
					qf = append(qf, a)
				}
			}
			qfQueries[i] = BuildQuery(qf, j.o.Cond, gv)
		}
	}
	sem := make(chan struct{}, par)
	var wg sync.WaitGroup
	for i := range jobs {
		wg.Add(1)
		sem <- struct{}{}
		go func(i int) {
			defer wg.Done()
			defer func() { <-sem }()
			logic := "ALL"
			if !jobs[i].o.HasQuant {
				logic = "QF_AUFBV"
			}
			var r solverRes
			if jobs[i].o.Kind == "vacuity" {
				// expected answer: sat. Quantified assumptions are left out
				// (unsat without them is still a contradiction; sat is
				// accepted as "reachable")
				q := queries[i]
				if qfQueries[i] != "" {
					q = qfQueries[i]
				}
				vt := full
				if vt > 10*time.Second {
					vt = 10 * time.Second
				}
				r = solveQueryL(q, "QF_AUFBV", quick, vt)
				o := jobs[i].o
				o.Status, o.Solver, o.Secs, o.RawOut = r.status, r.solver, r.secs, r.out
				return
			}
			if nearQueries[i] != "" {
				r = solveQueryL(nearQueries[i], "QF_AUFBV", 1500*time.Millisecond, 4*time.Second)
				if r.status == "unsat" {
					r.solver += "(near)"
				}
			}
			if r.status != "unsat" && qfQueries[i] != "" {
				qt := full
				if qt > 20*time.Second {
					qt = 20 * time.Second
				}
				r = solveQueryL(qfQueries[i], "QF_AUFBV", quick, qt)
				if r.status == "unsat" {
					r.solver += "(qf)"
				}
			}
			if r.status != "unsat" {
				r = solveQueryL(queries[i], logic, quick, full)
			}
			o := jobs[i].o
			o.Status = r.status
			o.Solver = r.solver
			o.Secs = r.secs
			o.RawOut = r.out
			if r.status == "sat" {
				o.Model = parseModel(r.out, o.Inputs)
			}
			if os.Getenv("GOVC_KEEP") != "" && (r.status != "unsat" || os.Getenv("GOVC_KEEP_ALL") != "") {
				os.WriteFile(filepath.Join(os.Getenv("GOVC_KEEP"), sanitize(o.Name)+".smt2"), []byte(queries[i]), 0o644)
			}
		}(i)
	}
	wg.Wait()
}

func parseModel(out string, inputs []*InputVar) map[string]string {
	m := map[string]string{}
	// (get-value) output: ((n12 #x...) (|in.x!3| #x..)) in request order
	idx := strings.Index(out, "((")
	if idx < 0 {
		return m
	}
	body := out[idx:]
	var vals []string
	// tokenise pairs
	depth := 0
	start := -1
	for i := 0; i < len(body); i++ {
		switch body[i] {
		case '(':
			depth++
			if depth == 2 {
				start = i
			}
		case ')':
			if depth == 2 && start >= 0 {
				pair := body[start+1 : i]
				f := strings.Fields(pair)
				if len(f) >= 2 {
					vals = append(vals, strings.Join(f[1:], " "))
				}
				start = -1
			}
			depth--
		}
	}
	k := 0
	for _, in := range inputs {
		if in.Term.S.Kind == SArray {
			continue
		}
		if k < len(vals) {
			m[in.Name] = vals[k]
		}
		k++
	}
	return m
}

var symMemo = map[*Term]map[string]bool{}

func symbolsOf(t *Term) map[string]bool {
	if m, ok := symMemo[t]; ok {
		return m
	}
	m := map[string]bool{}
	seen := map[*Term]bool{}
	var rec func(x *Term)
	rec = func(x *Term) {
		if seen[x] {
			return
		}
		seen[x] = true
		if x.Op == "var" || x.Op == "uf" {
			m[x.Name] = true
		}
		for _, a := range x.Args {
			rec(a)
		}
	}
	rec(t)
	symMemo[t] = m
	return m
}

// relevant keeps the assumptions that (transitively) share a symbol with the goal.
func relevant(assumes []*Term, goal []*Term) []*Term {
	live := map[string]bool{}
	for _, g := range goal {
		for s := range symbolsOf(g) {
			live[s] = true
		}
	}
	used := make([]bool, len(assumes))
	syms := make([]map[string]bool, len(assumes))
	for i, a := range assumes {
		syms[i] = symbolsOf(a)
	}
	for changed := true; changed; {
		changed = false
		for i := range assumes {
			if used[i] {
				continue
			}
			hit := false
			for s := range syms[i] {
				if live[s] {
					hit = true
					break
				}
			}
			if len(syms[i]) == 0 {
				hit = true
			}
			if hit {
				used[i] = true
				changed = true
				for s := range syms[i] {
					live[s] = true
				}
			}
		}
	}
	var out []*Term
	for i, a := range assumes {
		if used[i] {
			out = append(out, a)
		}
	}
	return out
}

// solveModel asks the z3 versions only (cvc5 is run without model production).
func solveModel(q string, tmo time.Duration) solverRes {
	queryMu.Lock()
	queryCtr++
	id := queryCtr
	queryMu.Unlock()
	file := filepath.Join(tmpDir, fmt.Sprintf("m%d.smt2", id))
	os.WriteFile(file, []byte(q), 0o644)
	defer os.Remove(file)
	ctx, cancel := context.WithCancel(context.Background())
	defer cancel()
	ch := make(chan solverRes, 2)
	for _, n := range []string{"z3-new", "z3"} {
		go func(n string) { ch <- runSolver(ctx, n, file, tmo) }(n)
	}
	var last solverRes
	for i := 0; i < 2; i++ {
		x := <-ch
		if x.status == "sat" || x.status == "unsat" {
			return x
		}
		last = x
	}
	return last
}
