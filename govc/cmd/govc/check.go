package main

import (
	"golang.org/x/tools/go/packages"

	"encoding/json"
	"flag"
	"fmt"
	"os"
	"path/filepath"
	"sort"
	"strconv"
	"strings"
	"time"
)

type baselineProp struct {
	Obligations map[string]string `json:"obligations"` // name -> discharged | undecided
	Functions   map[string]string `json:"functions"`   // name -> ok | undecided: reason
}

type knownFinding struct {
	Kind       string // known | fixed
	Property   string
	Obligation string
	Text       string
}

func loadKnown(path string) []knownFinding {
	data, err := os.ReadFile(path)
	if err != nil {
		return nil
	}
	var out []knownFinding
	for _, l := range strings.Split(string(data), "\n") {
		l = strings.TrimSpace(l)
		if l == "" || strings.HasPrefix(l, "#") {
			continue
		}
		kf := knownFinding{}
		if strings.HasPrefix(l, "known:") {
			kf.Kind = "known"
			l = strings.TrimSpace(l[6:])
		} else if strings.HasPrefix(l, "fixed:") {
			kf.Kind = "fixed"
			l = strings.TrimSpace(l[6:])
		} else {
			continue
		}
		for _, f := range strings.Fields(l) {
			if strings.HasPrefix(f, "property=") {
				kf.Property = f[9:]
			} else if strings.HasPrefix(f, "obligation=") {
				kf.Obligation = f[11:]
			}
		}
		if i := strings.Index(l, "obligation="); i >= 0 {
			rest := l[i:]
			if j := strings.Index(rest, " "); j >= 0 {
				kf.Text = strings.TrimSpace(rest[j:])
			}
		}
		out = append(out, kf)
	}
	return out
}

func hasProp(ps []string, p string) bool {
	for _, x := range ps {
		if x == p {
			return true
		}
	}
	return false
}

type checkOpts struct {
	repo, verif, prop, tier string
	writeBaseline           bool
}

type checkOutcome struct {
	results []*FnResult
	wall    float64
}

func verifDir() string {
	if d := os.Getenv("GOVC_VERIF"); d != "" {
		return d
	}
	exe, err := os.Executable()
	if err == nil {
		return filepath.Dir(filepath.Dir(exe))
	}
	return "/verif"
}

func cmdCheck(args []string) int {
	fs := flag.NewFlagSet("check", flag.ExitOnError)
	repo := fs.String("repo", "/repo", "")
	prop := fs.String("property", "", "")
	tier := fs.String("tier", "", "")
	fs.Parse(args)
	if *tier == "" {
		*tier = os.Getenv("VERIF_TIER")
	}
	if *tier == "" {
		*tier = "quick"
	}
	if *prop == "" {
		fmt.Fprintln(os.Stderr, "check: -property required")
		return 2
	}
	start := time.Now()
	w := setup(*repo)
	initTmp()
	defer cleanupTmp()
	return runProperty(w, *prop, *tier, verifDir(), start, false, nil)
}

func selectContracts(w *World, prop, tier string) ([]*FuncContract, []*Lemma) {
	var keys []string
	for k, fc := range w.contracts {
		if hasProp(fc.Props, prop) && (tier == "thorough" || fc.Tier == "quick") {
			keys = append(keys, k)
		}
	}
	sort.Strings(keys)
	var fcs []*FuncContract
	for _, k := range keys {
		fcs = append(fcs, w.contracts[k])
	}
	var lms []*Lemma
	for _, lm := range w.lemmas {
		if hasProp(lm.Props, prop) && (tier == "thorough" || lm.Tier == "quick") {
			lms = append(lms, lm)
		}
	}
	return fcs, lms
}

var resultCache = map[string]*FnResult{}

func runProperty(w *World, prop, tier, vdir string, start time.Time, writeBaseline bool, blOut map[string]*baselineProp) int {
	seed := 0
	if s := os.Getenv("VERIF_SEED"); s != "" {
		seed, _ = strconv.Atoi(s)
	}
	fcs, lms := selectContracts(w, prop, tier)
	var rs []*FnResult
	for _, fc := range fcs {
		if r, ok := resultCache[fc.Key]; ok {
			rs = append(rs, r)
			continue
		}
		t := time.Now()
		r := w.verifyFunction(fc)
		r.Secs = time.Since(t).Seconds()
		if r.Err != "" {
			r.Obls = nil
		}
		resultCache[fc.Key] = r
		rs = append(rs, r)
	}
	for _, lm := range lms {
		key := lm.PkgPath + ".lemma." + lm.Name
		if r, ok := resultCache[key]; ok {
			rs = append(rs, r)
			continue
		}
		t := time.Now()
		r := w.verifyLemma(lm)
		r.Secs = time.Since(t).Seconds()
		if r.Err != "" {
			r.Obls = nil
		}
		resultCache[key] = r
		rs = append(rs, r)
	}
	if prop == "C13" {
		rs = append(rs, portabilityResult(w))
	}
	quickT, fullT := 6*time.Second, 90*time.Second
	if tier == "thorough" {
		quickT, fullT = 5*time.Second, 150*time.Second
	}
	// baseline and known findings
	var bl map[string]*baselineProp
	if data, err := os.ReadFile(filepath.Join(vdir, "expected_obligations.json")); err == nil {
		json.Unmarshal(data, &bl)
	}
	bp := bl[prop]
	skipped := 0
	if tier == "quick" && bp != nil && !writeBaseline {
		// obligations that are undecided (or refuted and recorded) on the
		// reference tree are not part of the quick claim: do not spend solver
		// time on them (the thorough tier does)
		for _, r := range rs {
			for _, o := range r.Obls {
				if o.Status == "" {
					if st := bp.Obligations[o.Name]; st == "undecided" {
						o.Status = "skipped"
						skipped++
					}
				}
			}
		}
	}
	// vacuity guard: the preconditions of every function under contract must
	// be satisfiable (a contradictory `requires` would prove anything)
	var vac []*Obligation
	for _, r := range rs {
		if r.HasReq && r.Err == "" && !r.Trusted && r.NRequires <= len(r.Assumes) {
			o := &Obligation{Name: r.Name + ":vacuity:requires-satisfiable", Kind: "vacuity", Fn: r.Name, NAssume: r.NRequires, PC: True, Cond: False}
			r.Obls = append(r.Obls, o)
			vac = append(vac, o)
		}
	}
	discharge(rs, 8, quickT, fullT)
	// Second chance under less contention: an obligation that is part of the
	// claim (discharged on the reference tree) and merely ran out of time in
	// the parallel phase is solved again, two at a time, with twice the time.
	// A refuted obligation (sat) is never retried.
	if !writeBaseline && bp != nil {
		retried := 0
		for _, r := range rs {
			for _, o := range r.Obls {
				if (o.Status == "timeout" || o.Status == "unknown") && bp.Obligations[o.Name] == "discharged" {
					o.Status = ""
					retried++
				}
			}
		}
		if retried > 0 {
			fmt.Printf("retrying %d obligation(s) that timed out in the parallel phase\n", retried)
			discharge(rs, 2, quickT, 2*fullT)
		}
	}
	vacuous := []string{}
	for _, r := range rs {
		keep := r.Obls[:0]
		for _, o := range r.Obls {
			if o.Kind == "vacuity" {
				if o.Status == "unsat" {
					vacuous = append(vacuous, o.Name)
				}
				continue
			}
			keep = append(keep, o)
		}
		r.Obls = keep
	}
	known := loadKnown(filepath.Join(vdir, "KNOWN_FINDINGS.txt"))

	if writeBaseline {
		nb := &baselineProp{Obligations: map[string]string{}, Functions: map[string]string{}}
		for _, r := range rs {
			if r.Trusted {
				nb.Functions[r.Name] = "trusted"
				continue
			}
			if r.Err != "" {
				nb.Functions[r.Name] = "undecided: " + r.Err
				continue
			}
			nb.Functions[r.Name] = "ok"
			for _, o := range r.Obls {
				if o.Status == "unsat" && o.Secs < 30 {
					nb.Obligations[o.Name] = "discharged"
				} else if o.Status == "sat" {
					nb.Obligations[o.Name] = "fails"
				} else {
					nb.Obligations[o.Name] = "undecided"
				}
			}
		}
		blOut[prop] = nb
		bp = nb
	}

	type viol struct {
		name   string
		reason string
		o      *Obligation
		r      *FnResult
	}
	var viols []viol
	var knownHits []string
	var undecided []string
	total, discharged := 0, 0
	solverWins := map[string]int{}
	solverSecs := 0.0
	var samples []map[string]interface{}
	var fnNames []string
	abstr := map[string]int{}
	trivial := 0
	isKnown := func(name string) *knownFinding {
		for i := range known {
			if known[i].Kind == "known" && known[i].Property == prop && (known[i].Obligation == name || strings.HasPrefix(name, known[i].Obligation+"[")) {
				return &known[i]
			}
		}
		return nil
	}
	seenObl := map[string]bool{}
	for _, r := range rs {
		fnNames = append(fnNames, r.Name)
		for k, n := range r.Abstracts {
			abstr[r.Name+": "+k] += n
		}
		if r.Trusted {
			continue
		}
		if r.Err != "" {
			st := ""
			if bp != nil {
				st = bp.Functions[r.Name]
			}
			if strings.HasPrefix(st, "undecided") {
				undecided = append(undecided, r.Name+": "+r.Err)
				continue
			}
			if kf := isKnown(r.Name); kf != nil {
				knownHits = append(knownHits, fmt.Sprintf("KNOWN-FINDING: property=%s %s %s", prop, r.Name, kf.Text))
				continue
			}
			viols = append(viols, viol{name: r.Name + ":verifiable", reason: "function can no longer be brought under its contract: " + r.Err, r: r})
			continue
		}
		for _, o := range r.Obls {
			seenObl[o.Name] = true
			bst := ""
			if bp != nil {
				bst = bp.Obligations[o.Name]
			}
			if o.Status == "skipped" {
				undecided = append(undecided, o.Name+": undecided on the reference tree (not attempted in the quick tier)")
				continue
			}
			if o.Status == "unsat" {
				if bst == "undecided" || bst == "fails" {
					// slow or unstable on the reference tree: not part of the claim
					undecided = append(undecided, o.Name+" (discharged now, excluded as unstable)")
					continue
				}
				total++
				discharged++
				solverWins[o.Solver]++
				solverSecs += o.Secs
				if len(samples) < 12 {
					samples = append(samples, map[string]interface{}{"obligation": o.Name, "solver": o.Solver, "secs": round3(o.Secs), "query_nodes": o.QuerySz, "quantified": o.HasQuant, "pos": fmt.Sprintf("%s:%d", shortFile(o.Pos.Filename), o.Pos.Line)})
				}
				continue
			}
			if kf := isKnown(o.Name); kf != nil {
				line := fmt.Sprintf("KNOWN-FINDING: property=%s %s %s", prop, kf.Obligation, kf.Text)
				dup := false
				for _, h := range knownHits {
					if h == line {
						dup = true
					}
				}
				if !dup {
					knownHits = append(knownHits, line)
				}
				continue
			}
			if bst == "undecided" || bst == "fails" || (bst == "" && bp != nil && o.Status != "sat" && !contractKind(o.Kind)) {
				// not part of the claim unless a counterexample replays
				if o.Status == "sat" {
					viols = append(viols, viol{name: o.Name, reason: "counterexample found for an obligation outside the claimed set", o: o, r: r})
				} else {
					undecided = append(undecided, o.Name+": "+o.Status)
				}
				continue
			}
			total++
			viols = append(viols, viol{name: o.Name, reason: "obligation not discharged (" + o.Status + ")", o: o, r: r})
		}
		trivial += countTrivial(r)
	}
	// vanished contract obligations
	if bp != nil {
		var names []string
		for n := range bp.Obligations {
			names = append(names, n)
		}
		sort.Strings(names)
		for _, n := range names {
			if bp.Obligations[n] != "discharged" || seenObl[n] {
				continue
			}
			parts := strings.SplitN(n, ":", 3)
			if len(parts) < 2 {
				continue
			}
			kind := parts[1]
			if strings.HasPrefix(kind, "in(") && len(parts) > 2 {
				continue
			}
			if !(kind == "ensures" || kind == "lemma" || kind == "reset" || kind == "callsite" || kind == "footprint") {
				continue // calls and loops may legitimately disappear in a refactoring
			}
			// the function may be undecided (already reported)
			fnOK := false
			for _, r := range rs {
				if r.Name == parts[0] && r.Err == "" {
					fnOK = true
				}
			}
			if fnOK {
				viols = append(viols, viol{name: n, reason: "contract obligation present on the reference tree was not generated (contract no longer attached?)"})
				total++
			}
		}
	}

	for _, v := range vacuous {
		viols = append(viols, viol{name: v, reason: "the preconditions of this contract are contradictory: everything proved under them is vacuous"})
		total++
	}
	// replay + report
	exit := 0
	replayDir := filepath.Join(vdir, "out", "replay", prop)
	os.MkdirAll(replayDir, 0o755)
	var violNames []string
	for _, v := range viols {
		path := filepath.Join(replayDir, sanitize(v.name)+".json")
		rep := map[string]interface{}{"property": prop, "obligation": v.name, "reason": v.reason}
		confirmed := false
		if v.o != nil {
			rep["function"] = v.o.Fn
			rep["kind"] = v.o.Kind
			rep["position"] = fmt.Sprintf("%s:%d", shortFile(v.o.Pos.Filename), v.o.Pos.Line)
			rep["solver_status"] = v.o.Status
			rep["solver"] = v.o.Solver
			rep["solver_output"] = truncate(v.o.RawOut, 4000)
			rep["model"] = v.o.Model
			if v.o.Status == "sat" {
				rr := w.replay(v.r, v.o)
				rep["replay"] = rr
				confirmed = rr.Confirmed
			}
		}
		if v.o != nil && !confirmed && v.o.Status == "sat" && v.reason == "counterexample found for an obligation outside the claimed set" {
			// spurious or unreplayable counterexample for an unclaimed obligation
			undecided = append(undecided, v.name+": sat but not confirmed by replay")
			continue
		}
		data, _ := json.MarshalIndent(rep, "", " ")
		os.WriteFile(path, data, 0o644)
		fmt.Printf("failed obligation: %s (%s)\n", v.name, v.reason)
		line := fmt.Sprintf("VIOLATION property=%s replay=%s", prop, path)
		if !confirmed {
			line += " no-failing-input-found"
		}
		fmt.Println(line)
		violNames = append(violNames, v.name)
		exit = 1
	}
	sort.Strings(knownHits)
	for _, k := range knownHits {
		fmt.Println(k)
	}

	// evidence
	var abs []string
	for k, n := range abstr {
		abs = append(abs, fmt.Sprintf("%s x%d", k, n))
	}
	sort.Strings(abs)
	sort.Strings(undecided)
	if undecided == nil {
		undecided = []string{}
	}
	if knownHits == nil {
		knownHits = []string{}
	}
	if violNames == nil {
		violNames = []string{}
	}
	assumptions := []string{
		"int/uint/uintptr are " + strconv.Itoa(IntW) + "-bit; all integer arithmetic is modelled as fixed-width bit-vectors (no mathematical-integer abstraction)",
		"allocation never fails; slices have at most 2^48 elements; fewer than 2^31 objects are allocated",
		"append always returns a fresh backing array (in-place growth and the resulting aliasing are not modelled)",
		"floating-point operations, string contents, maps and channels are uninterpreted",
		"package-level tables are immutable after init unless a store outside init was found by the scan",
		"calls listed under abstracted_calls are havocked (results unconstrained, reachable memory unconstrained)",
		"obligations inside a callee that is itself under contract are checked where that callee is verified",
	}
	// loop invariants / preconditions that are used (assumed after the loop
	// or at the call) although their own proof obligation is not discharged
	assumedInv := []string{}
	for _, u := range undecided {
		if strings.Contains(u, ":inv-entry(") || strings.Contains(u, ":inv-preserved(") || strings.Contains(u, ":inv-cut(") || strings.Contains(u, ":pre(") || strings.Contains(u, ":decreases(") {
			assumedInv = append(assumedInv, u)
		}
	}
	if len(assumedInv) > 0 {
		assumptions = append(assumptions, fmt.Sprintf("%d loop-invariant / precondition obligations are not discharged on the reference tree (listed under coverage.assumed_invariants): the obligations of the same function that come after them are proved relative to these invariants", len(assumedInv)))
	}
	cov := map[string]interface{}{
		"assumed_invariants":       assumedInv,
		"obligations":              total,
		"discharged":               discharged,
		"checker_cmd":              fmt.Sprintf("bin/govc check -property %s -tier %s (VC generation over go/ssa of /repo with -tags verif; z3-new 5.1.0, cvc5 1.0.3, z3 4.8.12 raced per obligation)", prop, tier),
		"trusted_base":             []string{"go/packages + go/types + go/ssa (x/tools v0.29.0)", "govc SSA-to-SMT encoding (/verif/govc)", "z3 4.8.12, z3 5.1.0, cvc5 1.0.3 (an unsat answer is believed)", "intrinsic axioms for copy/append/len/min/max/math/bits/io.Writer.Write", "spec functions in zz_spec_verif.go / pure funcs in the contract files as the meaning of the formats", "Go compiler and runtime"},
		"functions_under_contract": fnNames,
		"solver_wins":              solverWins,
		"solver_secs":              round3(solverSecs),
		"trivially_true":           trivial,
		"abstracted_calls":         abs,
		"undecided_not_claimed":    undecided,
		"known_findings":           knownHits,
		"violations":               violNames,
		"vacuity_checks":           len(vac),
		"samples":                  samples,
	}
	ev := map[string]interface{}{
		"property_id": prop,
		"tier":        tier,
		"seed":        seed,
		"level":       "proof",
		"coverage":    cov,
		"assumptions": assumptions,
		"wall_s":      round3(time.Since(start).Seconds()),
		"violations":  len(violNames),
	}
	if total == 0 {
		// vacuity guard: nothing was checked
		fmt.Printf("VIOLATION property=%s replay=%s no-failing-input-found\n", prop, filepath.Join(replayDir, "vacuity.json"))
		os.WriteFile(filepath.Join(replayDir, "vacuity.json"), []byte(`{"reason":"no obligation was generated for this property"}`), 0o644)
		exit = 1
	}
	if !writeBaseline {
		os.MkdirAll(filepath.Join(vdir, "evidence"), 0o755)
		data, _ := json.MarshalIndent(ev, "", " ")
		os.WriteFile(filepath.Join(vdir, "evidence", prop+".json"), data, 0o644)
	}
	fmt.Printf("property %s tier %s: %d functions/lemmas, %d obligations, %d discharged, %d violations, %d known, %d undecided (not claimed), %.1fs\n",
		prop, tier, len(rs), total, discharged, len(violNames), len(knownHits), len(undecided), time.Since(start).Seconds())
	return exit
}

func contractKind(kind string) bool {
	return kind == "ensures" || kind == "lemma" || kind == "frame" || strings.HasPrefix(kind, "pre(") || strings.HasPrefix(kind, "inv-") || strings.HasPrefix(kind, "decreases") || kind == "callsite" || kind == "reset" || kind == "footprint"
}

func countTrivial(r *FnResult) int { return r.Trivial }

func round3(f float64) float64 { return float64(int(f*1000+0.5)) / 1000 }

func truncate(s string, n int) string {
	if len(s) > n {
		return s[:n] + "..."
	}
	return s
}

func cmdBaseline(args []string) int {
	fs := flag.NewFlagSet("baseline", flag.ExitOnError)
	repo := fs.String("repo", "/repo", "")
	props := fs.String("properties", "", "comma separated (default: all with contracts)")
	fs.Parse(args)
	w := setup(*repo)
	initTmp()
	defer cleanupTmp()
	vdir := verifDir()
	out := map[string]*baselineProp{}
	if data, err := os.ReadFile(filepath.Join(vdir, "expected_obligations.json")); err == nil {
		json.Unmarshal(data, &out)
	}
	set := map[string]bool{}
	if *props != "" {
		for _, p := range strings.Split(*props, ",") {
			set[p] = true
		}
	} else {
		for _, fc := range w.contracts {
			for _, p := range fc.Props {
				set[p] = true
			}
		}
		for _, lm := range w.lemmas {
			for _, p := range lm.Props {
				set[p] = true
			}
		}
	}
	var ps []string
	for p := range set {
		ps = append(ps, p)
	}
	sort.Strings(ps)
	for _, p := range ps {
		runProperty(w, p, "thorough", vdir, time.Now(), true, out)
	}
	data, _ := json.MarshalIndent(out, "", " ")
	os.WriteFile(filepath.Join(vdir, "expected_obligations.json"), data, 0o644)
	return 0
}

// portabilityResult type-checks the whole module for 32-bit targets (int is
// 32 bits wide there): one obligation per target, decided by go/types.
func portabilityResult(w *World) *FnResult {
	r := &FnResult{Name: "webp.module", Key: "", Props: []string{"C13"}, IsLemma: true}
	for _, arch := range []string{"386", "arm"} {
		o := &Obligation{Name: "webp.module:typecheck:GOARCH=" + arch, Kind: "lemma", Fn: "webp.module", PC: True, Cond: True, Solver: "go/types"}
		cfg := &packages.Config{Mode: packages.NeedName | packages.NeedTypes | packages.NeedSyntax | packages.NeedTypesInfo | packages.NeedImports | packages.NeedDeps,
			Dir: w.RepoDir, Env: append(os.Environ(), "GOFLAGS=-mod=mod", "GOPROXY=off", "GOARCH="+arch, "CGO_ENABLED=0")}
		pkgs, err := packages.Load(cfg, "./...")
		var errs []string
		if err != nil {
			errs = append(errs, err.Error())
		}
		packages.Visit(pkgs, nil, func(p *packages.Package) {
			if strings.HasPrefix(p.PkgPath, modulePath) {
				for _, e := range p.Errors {
					errs = append(errs, e.Error())
				}
			}
		})
		if len(errs) == 0 {
			o.Status = "unsat"
		} else {
			o.Status = "sat"
			o.RawOut = strings.Join(errs, "\n")
		}
		r.Obls = append(r.Obls, o)
	}
	return r
}
