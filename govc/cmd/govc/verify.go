package main

import (
	"fmt"
	"os"
	"go/token"
	"go/types"
	"sort"
	"strings"

	"golang.org/x/tools/go/ssa"
)

// ---- static modification scan (for loop havoc) ----

type storeDesc struct {
	cell     *ssa.Alloc // store directly into a local/global-free cell
	global   *ssa.Global
	viaCell  *ssa.Alloc // address derived from a value loaded from this cell
	viaGlob  *ssa.Global
	elem     bool
	rtype    types.Type // root type of the class
	unknown  bool       // root could not be traced: whole class
	viaParam *ssa.Parameter
	path     []fieldStep // fields followed (by load) from the root value to the pointer/slice used
	resliced bool        // the slice was re-sliced on the way (may reach up to cap)
	fresh    bool        // the written memory was allocated by the same function (make/new/append)
}

type fieldStep struct {
	st  types.Type // struct type
	idx int
}

type modSet struct {
	stores   []storeDesc
	writes   bool // calls io.Writer.Write
	unknown  []types.Type
	allocs   bool
	opaque   bool // calls something with no body: reachable-from-args havoc
	opaqueTs []types.Type
}

// traceAddr follows an address computation back to its root.
func traceAddr(v ssa.Value) storeDesc {
	for depth := 0; depth < 32; depth++ {
		switch x := v.(type) {
		case *ssa.Alloc:
			return storeDesc{cell: x}
		case *ssa.Global:
			return storeDesc{global: x}
		case *ssa.FieldAddr:
			v = x.X
			// if X is a loaded pointer, the class is obj of pointee
			if root, ok := loadedFrom(x.X); ok {
				pt := x.X.Type().Underlying().(*types.Pointer).Elem()
				d := root
				d.rtype = pt
				return d
			}
		case *ssa.IndexAddr:
			switch u := x.X.Type().Underlying().(type) {
			case *types.Slice:
				if root, ok := loadedFrom(x.X); ok {
					d := root
					d.elem = true
					d.rtype = u.Elem()
					return d
				}
				return storeDesc{unknown: true, elem: true, rtype: u.Elem()}
			case *types.Pointer:
				if root, ok := loadedFrom(x.X); ok {
					d := root
					d.rtype = u.Elem()
					return d
				}
				v = x.X
			}
		default:
			if p, ok := v.Type().Underlying().(*types.Pointer); ok {
				if root, ok := loadedFrom(v); ok {
					d := root
					d.rtype = p.Elem()
					return d
				}
				return storeDesc{unknown: true, rtype: p.Elem()}
			}
			return storeDesc{unknown: true, rtype: v.Type()}
		}
	}
	return storeDesc{unknown: true, rtype: v.Type()}
}

// loadedFrom: is v (possibly through slicing and field loads) a value
// loaded from a cell or parameter?
func loadedFrom(v ssa.Value) (storeDesc, bool) {
	var path []fieldStep
	resliced := false
	for depth := 0; depth < 12; depth++ {
		switch x := v.(type) {
		case *ssa.UnOp:
			if x.Op != token.MUL {
				return storeDesc{}, false
			}
			switch a := x.X.(type) {
			case *ssa.Alloc:
				return storeDesc{viaCell: a, path: path, resliced: resliced}, true
			case *ssa.Global:
				return storeDesc{viaGlob: a, path: path, resliced: resliced}, true
			case *ssa.FieldAddr:
				// value loaded from a field of an object: follow the object pointer
				pt := a.X.Type().Underlying().(*types.Pointer).Elem()
				path = append([]fieldStep{{pt, a.Field}}, path...)
				v = a.X
				continue
			}
			return storeDesc{}, false
		case *ssa.Slice:
			v = x.X
			resliced = true
		case *ssa.Parameter:
			return storeDesc{viaParam: x, path: path, resliced: resliced}, true
		default:
			return storeDesc{}, false
		}
	}
	return storeDesc{}, false
}

func (w *World) scanBlocks(blocks []*ssa.BasicBlock, ms *modSet, seen map[*ssa.Function]bool, depth int) {
	for _, b := range blocks {
		for _, in := range b.Instrs {
			switch x := in.(type) {
			case *ssa.Store:
				ms.stores = append(ms.stores, traceAddr(x.Addr))
			case *ssa.Alloc, *ssa.MakeSlice, *ssa.MakeInterface, *ssa.MakeMap, *ssa.MakeClosure:
				ms.allocs = true
			case *ssa.Call:
				w.scanCall(&x.Call, ms, seen, depth)
			case *ssa.Defer:
				w.scanCall(&x.Call, ms, seen, depth)
			case *ssa.MapUpdate:
			}
		}
	}
}

func (w *World) scanCall(call *ssa.CallCommon, ms *modSet, seen map[*ssa.Function]bool, depth int) {
	if call.IsInvoke() {
		if call.Method.Name() == "Write" {
			ms.writes = true
			return
		}
		key := typeKey(call.Value.Type()) + "." + call.Method.Name()
		if w.pureIfaceMethods[key] {
			return
		}
		ms.opaque = true
		for _, a := range call.Args {
			ms.opaqueTs = append(ms.opaqueTs, a.Type())
		}
		return
	}
	if b, ok := call.Value.(*ssa.Builtin); ok {
		switch b.Name() {
		case "copy", "clear":
			if sl, ok := call.Args[0].Type().Underlying().(*types.Slice); ok {
				d, ok2 := loadedFrom(call.Args[0])
				if ok2 {
					d.elem = true
					d.rtype = sl.Elem()
					ms.stores = append(ms.stores, d)
				} else {
					ms.stores = append(ms.stores, storeDesc{unknown: true, elem: true, rtype: sl.Elem()})
				}
			}
		case "append":
			ms.allocs = true
		}
		return
	}
	fn := call.StaticCallee()
	if fn == nil {
		ms.opaque = true
		for _, a := range call.Args {
			ms.opaqueTs = append(ms.opaqueTs, a.Type())
		}
		return
	}
	name := fullName(fn)
	if pureExternals[name] || strings.HasPrefix(name, "math.") || strings.HasPrefix(name, "math/bits.") || name == "runtime.GOMAXPROCS" {
		return
	}
	if fn.Blocks == nil || depth > 8 {
		ms.opaque = true
		for _, a := range call.Args {
			ms.opaqueTs = append(ms.opaqueTs, a.Type())
		}
		return
	}
	if seen[fn] {
		return
	}
	seen[fn] = true
	sub := &modSet{}
	w.scanBlocks(fn.Blocks, sub, seen, depth+1)
	for _, anon := range fn.AnonFuncs {
		if !seen[anon] {
			seen[anon] = true
			w.scanBlocks(anon.Blocks, sub, seen, depth+1)
		}
	}
	// stores in the callee: cells local to the callee are irrelevant; stores
	// via its parameters/loads become unknown-root class stores for the caller
	for _, s := range sub.stores {
		if s.cell != nil {
			continue
		}
		if s.global != nil || s.viaGlob != nil {
			ms.stores = append(ms.stores, s)
			continue
		}
		if s.rtype != nil {
			fresh := s.fresh || (s.viaCell != nil && len(s.path) == 0 && cellHoldsOnlyFresh(s.viaCell))
			ms.stores = append(ms.stores, storeDesc{unknown: true, elem: s.elem, rtype: s.rtype, fresh: fresh})
			if !s.elem {
				// a pointer parameter may point into a slice element
				ms.stores = append(ms.stores, storeDesc{unknown: true, elem: true, rtype: s.rtype, fresh: fresh})
			}
		}
	}
	ms.writes = ms.writes || sub.writes
	ms.allocs = ms.allocs || sub.allocs
	ms.opaque = ms.opaque || sub.opaque
	ms.opaqueTs = append(ms.opaqueTs, sub.opaqueTs...)
}

// cellHoldsOnlyFresh: every value ever stored into the local variable is a
// fresh allocation of the same function.
func cellHoldsOnlyFresh(a *ssa.Alloc) bool {
	refs := a.Referrers()
	if refs == nil {
		return false
	}
	n := 0
	for _, r := range *refs {
		st, ok := r.(*ssa.Store)
		if !ok || st.Addr != ssa.Value(a) {
			continue
		}
		n++
		switch v := st.Val.(type) {
		case *ssa.MakeSlice:
		case *ssa.Alloc:
			if !v.Heap {
				return false
			}
		case *ssa.Slice:
			if al, ok := v.X.(*ssa.Alloc); !ok || !al.Heap {
				return false
			}
		default:
			return false
		}
	}
	return n > 0
}

// ---- loops with invariants ----

func (c *Ctx) localLookup(fr *frame, st *State, before token.Pos) func(string) *Val {
	return func(name string) *Val {
		var best *ssa.Alloc
		bestID := -1
		for _, l := range fr.fn.Locals {
			if l.Comment != name {
				continue
			}
			pv, ok := st.regs[l]
			if !ok || pv.Ptr == nil || pv.Ptr.Cell == nil {
				continue
			}
			// several variables may share a name (shadowing, one hidden
			// index per range loop): the most recently created one is meant
			if pv.Ptr.Cell.id > bestID {
				best, bestID = l, pv.Ptr.Cell.id
			}
		}
		if best == nil {
			// heap-allocated named locals ("new T (name)")
			for _, b := range fr.fn.Blocks {
				for _, in := range b.Instrs {
					if a, ok := in.(*ssa.Alloc); ok && a.Heap && a.Comment == name {
						if _, ok := st.regs[a]; ok {
							best = a
						}
					}
				}
			}
		}
		if best == nil {
			return nil
		}
		p := st.regs[best]
		if p == nil || p.Ptr == nil {
			return nil
		}
		return c.loadAddr(st, p.Ptr)
	}
}

func (c *Ctx) specEnv(fr *frame, st *State) *Env {
	pkg := fr.fn.Pkg
	f := fr.fn
	for pkg == nil && f.Parent() != nil {
		f = f.Parent()
		pkg = f.Pkg
	}
	e := &Env{c: c, st: st, vars: map[string]*Val{}}
	if pkg != nil {
		e.pkg = pkg.Pkg
	}
	return e
}

func (c *Ctx) runLoopInv(fr *frame, l *loopInfo, lc *LoopContract, entry *State) {
	tag := fmt.Sprintf("loop%d", l.ord)
	mkEnv := func(st *State) *Env {
		e := c.specEnv(fr, st)
		e.lookup = c.localLookup(fr, st, token.NoPos)
		if fr.entry != nil {
			e.old = fr.entry
			oe := c.specEnv(fr, fr.entry)
			oe.lookup = c.localLookup(fr, fr.entry, token.NoPos)
			oe.vars = fr.entryVars
			e.oldEnv = oe
		}
		return e
	}
	// 1. invariants hold on entry
	for _, inv := range lc.Invariants {
		cond := c.evalClause(mkEnv(entry), inv)
		c.oblige(entry, "inv-entry("+tag+")", inv.Text, l.pos, cond)
	}
	// 2. havoc what the loop may modify
	st := entry
	c.havocLoop(fr, l, st)
	// 3. assume invariants
	for _, inv := range lc.Invariants {
		c.assume(st.pc, c.evalClause(mkEnv(st), inv))
	}
	var d0 *Term
	if lc.Decreases != nil {
		d0 = c.evalMeasure(mkEnv(st), lc.Decreases)
	}
	// 4. body once
	fr.pending[l.header] = []edgeState{{nil, st}}
	c.runNodesLoop(fr, l)
	back := fr.pending[l.header]
	delete(fr.pending, l.header)
	be := c.enterBlock(fr, l.header, back)
	if be == nil {
		return
	}
	for _, cut := range lc.Cuts {
		// an intermediate assertion at the end of the body (assert, then
		// use): it may mention the locals of the body
		cond := c.evalClause(mkEnv(be), cut)
		c.oblige(be, "inv-cut("+tag+")", cut.Text, l.pos, cond)
	}
	for _, inv := range lc.Invariants {
		cond := c.evalClause(mkEnv(be), inv)
		c.oblige(be, "inv-preserved("+tag+")", inv.Text, l.pos, cond)
	}
	if d0 != nil {
		d1 := c.evalMeasure(mkEnv(be), lc.Decreases)
		c.oblige(be, "decreases("+tag+")", lc.Decreases.Text, l.pos, And(SLe(Const(64, 0), d0), SLt(d1, d0)))
	}
}

func (c *Ctx) evalClause(e *Env, cl *Clause) (t *Term) {
	defer func() {
		if r := recover(); r != nil {
			if er, ok := r.(error); ok {
				panic(fmt.Errorf("%s:%d: %v", shortFile(cl.File), cl.Line, er))
			}
			panic(r)
		}
	}()
	return e.evalBool(cl.E)
}

func shortFile(f string) string {
	return strings.TrimPrefix(f, "/repo/")
}

func (c *Ctx) evalMeasure(e *Env, cl *Clause) *Term {
	v := e.eval(cl.E)
	return e.toIdx(v)
}

func (c *Ctx) havocLoop(fr *frame, l *loopInfo, st *State) {
	var blocks []*ssa.BasicBlock
	for b := range l.body {
		blocks = append(blocks, b)
	}
	sort.Slice(blocks, func(i, j int) bool { return blocks[i].Index < blocks[j].Index })
	ms := &modSet{}
	c.W.scanBlocks(blocks, ms, map[*ssa.Function]bool{fr.fn: true}, 0)
	// modified cells first
	modCells := map[*ssa.Alloc]bool{}
	for _, s := range ms.stores {
		if s.cell != nil {
			modCells[s.cell] = true
		}
	}
	type region struct {
		elem  bool
		rtype types.Type
		root  *Term
		off   *Term // for slices: only [off, off+n) can be written through them
		n     *Term
	}
	var regions []region
	whole := map[HKey]bool{}
	freshOnly := map[HKey]bool{}
	curFresh := false
	wholeClass := func(elem bool, t types.Type) {
		for j := range leafSorts(t) {
			k := HKey{Elem: elem, T: typeKey(t), Leaf: j}
			if _, seen := whole[k]; !seen {
				freshOnly[k] = curFresh
			} else if !curFresh {
				freshOnly[k] = false
			}
			whole[k] = true
		}
	}
	for _, s := range ms.stores {
		curFresh = s.fresh
		switch {
		case s.cell != nil:
		case s.global != nil:
			cell := c.W.globalCell(s.global)
			st.cells[cell] = c.havocVal(st, cell.Typ, "G."+s.global.Name())
		case s.unknown || s.rtype == nil:
			if s.rtype != nil {
				wholeClass(s.elem, s.rtype)
				if !s.elem {
					wholeClass(true, s.rtype)
				}
			}
		case s.viaCell != nil && !modCells[s.viaCell]:
			pv, ok := st.regs[s.viaCell]
			if !ok || pv.Ptr == nil || pv.Ptr.Cell == nil {
				wholeClass(s.elem, s.rtype)
				continue
			}
			cv := st.cells[pv.Ptr.Cell]
			if cv == nil || cv.L == nil || len(cv.L) == 0 {
				wholeClass(s.elem, s.rtype)
				continue
			}
			if root, off, n := c.followPath(st, cv, s.path, ms, s.resliced); root != nil {
				regions = append(regions, region{s.elem, s.rtype, root, off, n})
			} else {
				wholeClass(s.elem, s.rtype)
			}
		case s.viaParam != nil:
			pv, ok := st.regs[s.viaParam]
			if !ok || pv.L == nil {
				wholeClass(s.elem, s.rtype)
				continue
			}
			if root, off, n := c.followPath(st, pv, s.path, ms, s.resliced); root != nil {
				regions = append(regions, region{s.elem, s.rtype, root, off, n})
			} else {
				wholeClass(s.elem, s.rtype)
			}
		default:
			wholeClass(s.elem, s.rtype)
			if !s.elem {
				wholeClass(true, s.rtype)
			}
		}
	}
	if ms.opaque {
		seen := map[string]bool{}
		for _, t := range ms.opaqueTs {
			c.havocReachable(st, t, seen, 0)
		}
		c.W.havocMutableGlobals(c, st)
	}
	if ms.opaque {
		for k := range freshOnly {
			freshOnly[k] = false
		}
	}
	wholeKeys := make([]HKey, 0, len(whole))
	for k := range whole {
		wholeKeys = append(wholeKeys, k)
	}
	sort.Slice(wholeKeys, func(i, j int) bool { return wholeKeys[i].String() < wholeKeys[j].String() })
	for _, k := range wholeKeys {
		s := leafSortForKey(k)
		if s == nil {
			continue
		}
		nh := Fresh("loop."+k.String(), s)
		if freshOnly[k] {
			// only memory allocated inside the loop is written: everything
			// that existed at loop entry keeps its contents
			old := c.heapGet(st, k, s)
			r := BoundVar("r", RefSort)
			nh = Lambda(r, Ite(ULt(r, st.clk), Select(old, r), Select(nh, r)))
		}
		st.heap[k] = nh
	}
	for _, r := range regions {
		ss := leafSorts(r.rtype)
		for j, s := range ss {
			k := HKey{Elem: r.elem, T: typeKey(r.rtype), Leaf: j}
			if whole[k] {
				continue
			}
			hs := heapSort(r.elem, s)
			h := c.heapGet(st, k, hs)
			na := Fresh("loop."+k.String(), hs.Elem)
			if r.elem && r.off != nil {
				oldA := Select(h, r.root)
				i := BoundVar("i", BV(64))
				in := And(ULe(r.off, i), ULt(i, Add(r.off, r.n)))
				na = Lambda(i, Ite(in, Select(na, i), Select(oldA, i)))
			}
			st.heap[k] = Store(h, r.root, na)
		}
	}
	// cells: only those that exist before the loop
	mcs := make([]*ssa.Alloc, 0, len(modCells))
	for a := range modCells {
		mcs = append(mcs, a)
	}
	sort.Slice(mcs, func(i, j int) bool {
		if mcs[i].Pos() != mcs[j].Pos() {
			return mcs[i].Pos() < mcs[j].Pos()
		}
		return mcs[i].Name() < mcs[j].Name()
	})
	for _, a := range mcs {
		pv, ok := st.regs[a]
		if !ok || pv.Ptr == nil || pv.Ptr.Cell == nil {
			continue
		}
		cell := pv.Ptr.Cell
		old := st.cells[cell]
		if old != nil && old.L == nil {
			unsup("loop modifies variable %s holding a non-flat value", cell.Name)
		}
		st.cells[cell] = c.havocVal(st, cell.Typ, "loop."+cell.Name)
		if cell.Name == "rangeindex" && len(st.cells[cell].L) == 1 && st.cells[cell].L[0].S == BV(64) {
			// go/ssa lowers `for range` to an index that starts at -1 and is
			// only ever incremented by one below the (fixed) length.
			v := st.cells[cell].L[0]
			c.assume(st.pc, And(SLe(Const(64, ^uint64(0)), v), SLt(v, Const(64, 1<<62))))
		}
	}
	// allocation clock
	nclk := Fresh("clk", RefSort)
	c.assume(st.pc, ULe(st.clk, nclk))
	st.clk = nclk
	if ms.writes || ms.opaque {
		c.havocGhost(st)
	}
}

// followPath loads through the recorded field path starting from v; it
// gives up (nil) when the loop may itself modify one of the objects on the path.
func (c *Ctx) followPath(st *State, v *Val, path []fieldStep, ms *modSet, resliced bool) (*Term, *Term, *Term) {
	cur := v
	for _, fs := range path {
		for _, s2 := range ms.stores {
			if s2.rtype != nil && !s2.elem && typeKey(s2.rtype) == typeKey(fs.st) {
				return nil, nil, nil
			}
		}
		if cur.Ptr == nil {
			return nil, nil, nil
		}
		stt, ok := fs.st.Underlying().(*types.Struct)
		if !ok {
			return nil, nil, nil
		}
		lo, hi := fieldRange(stt, fs.idx)
		a := *cur.Ptr
		a.Lo, a.Hi = cur.Ptr.Lo+lo, cur.Ptr.Lo+hi
		a.Typ = stt.Field(fs.idx).Type()
		cur = c.loadAddr(st, &a)
	}
	if cur.L == nil || len(cur.L) == 0 {
		return nil, nil, nil
	}
	if _, ok := cur.Typ.Underlying().(*types.Slice); ok && len(cur.L) == 4 {
		// writes through (re-slicings of) this slice stay inside [off, off+cap)
		if !resliced {
			return cur.L[0], cur.L[1], cur.L[2]
		}
		return cur.L[0], cur.L[1], cur.L[3]
	}
	return cur.L[0], nil, nil
}

var keySorts = map[HKey]*Sort{}

func leafSortForKey(k HKey) *Sort {
	return keySorts[k]
}

// ---- contracts at call sites ----

func resultNames(fn *ssa.Function) []string {
	res := fn.Signature.Results()
	out := make([]string, res.Len())
	for i := 0; i < res.Len(); i++ {
		out[i] = res.At(i).Name()
	}
	return out
}

func (c *Ctx) bindResults(env *Env, fn *ssa.Function, res *Val) {
	n := fn.Signature.Results().Len()
	names := resultNames(fn)
	for i := 0; i < n; i++ {
		var v *Val
		if n == 1 {
			v = res
		} else {
			v = tupleAt(res, i)
		}
		if names[i] != "" && names[i] != "_" {
			env.vars[names[i]] = v
		}
		env.vars[fmt.Sprintf("result%d", i)] = v
		if n == 1 {
			env.vars["result"] = v
		}
	}
}

func (c *Ctx) contractEnv(fn *ssa.Function, st *State, args []*Val) *Env {
	e := &Env{c: c, st: st, vars: map[string]*Val{}}
	if fn.Pkg != nil {
		e.pkg = fn.Pkg.Pkg
	}
	for i, p := range fn.Params {
		if i < len(args) && p.Name() != "" && p.Name() != "_" {
			e.vars[p.Name()] = args[i]
		}
	}
	return e
}

func (c *Ctx) applyContract(st *State, fc *FuncContract, fn *ssa.Function, args []*Val, pos token.Pos) *Val {
	short := shortName(fc.Key)
	env := c.contractEnv(fn, st, args)
	for _, r := range fc.Requires {
		cond := c.evalClause(env, r)
		c.oblige(st, "pre("+short+")", r.Text, pos, cond)
	}
	old := st.clone()
	oldEnv := c.contractEnv(fn, old, args)
	// havoc the frame
	for _, m := range fc.Modifies {
		c.havocTarget(st, env, m)
	}
	if (fc.Trusted && !fc.HasMod) || fc.ModAny || (len(fc.AbstractCallees) > 0 && !fc.HasMod) {
		// an assumed contract without a frame: everything reachable from
		// the arguments may change
		seen := map[string]bool{}
		for _, a := range args {
			if a != nil && a != poison {
				c.havocReachable(st, a.Typ, seen, 0)
			}
		}
		c.W.havocMutableGlobals(c, st)
	}
	if c.W.fnMayWrite(fn) {
		// the callee may write to an io.Writer: the ghost byte log after the
		// call is whatever the callee's postcondition says about it
		c.havocGhost(st)
	}
	nclk := Fresh("clk", RefSort)
	c.assume(st.pc, ULe(st.clk, nclk))
	st.clk = nclk
	res := c.freshResults(st, fn.Signature, "r."+fn.Name())
	post := c.contractEnv(fn, st, args)
	post.old = old
	post.oldEnv = oldEnv
	if res != nil {
		c.bindResults(post, fn, res)
	}
	saveClk0 := c.clk0
	c.clk0 = old.clk // fresh() in the callee's postcondition refers to its own entry
	for _, en := range fc.Ensures {
		if t, ok := c.evalCalleeClause(post, en); ok {
			c.assume(st.pc, t)
		}
	}
	c.clk0 = saveClk0
	return res
}

// evalCalleeClause evaluates a postcondition at a call site. A clause that
// mentions local variables of the callee (visible only while the callee
// itself is verified) cannot be stated at the call site: the caller simply
// does not get that fact (fewer assumptions, still sound).
func (c *Ctx) evalCalleeClause(e *Env, cl *Clause) (t *Term, ok bool) {
	defer func() {
		if r := recover(); r != nil {
			if er, isErr := r.(error); isErr && (strings.Contains(er.Error(), "unknown identifier") || strings.Contains(er.Error(), "unknown function")) {
				t, ok = nil, false
				return
			}
			panic(r)
		}
	}()
	return c.evalClause(e, cl), true
}

// fnMayWrite: the function (or something it calls) may call Write on an
// interface value, or calls code the scan cannot see.
func (w *World) fnMayWrite(fn *ssa.Function) bool {
	if fn == nil || fn.Blocks == nil {
		return true
	}
	if v, ok := w.mayWrite[fn]; ok {
		return v
	}
	ms := &modSet{}
	seen := map[*ssa.Function]bool{fn: true}
	w.scanBlocks(fn.Blocks, ms, seen, 0)
	for _, anon := range fn.AnonFuncs {
		if !seen[anon] {
			seen[anon] = true
			w.scanBlocks(anon.Blocks, ms, seen, 0)
		}
	}
	r := ms.writes || ms.opaque
	if w.mayWrite == nil {
		w.mayWrite = map[*ssa.Function]bool{}
	}
	w.mayWrite[fn] = r
	return r
}

// havocGhost forgets the ghost byte log of the io.Writer.
func (c *Ctx) havocGhost(st *State) {
	g := c.ghostLog(st)
	st.ghost["wlog"] = c.appendedLog(st, g)
}

// appendedLog: the log of an io.Writer is append-only, so whatever happened
// the bytes already written are still there and the length did not shrink;
// everything after the old length is unknown.
func (c *Ctx) appendedLog(st *State, g *Val) *Val {
	nl := Fresh("wlen", BV(64))
	c.assume(st.pc, And(SLe(g.L[1], nl), SLe(nl, Const(64, 1<<50)), ULe(g.L[1], nl), ULe(nl, Const(64, 1<<50))))
	fr := Fresh("wlog", g.L[0].S)
	i := BoundVar("i", BV(64))
	na := Lambda(i, Ite(ULt(i, g.L[1]), Select(g.L[0], i), Select(fr, i)))
	return &Val{Typ: g.Typ, L: []*Term{na, nl}}
}

type modTarget struct {
	obj   *Term // whole object / location root
	otype types.Type
	lo    int
	hi    int
	elem  bool   // slice elements
	sl    []*Term // base, off, len
	et    types.Type
	cell  *Cell
}

func (c *Ctx) evalTarget(env *Env, m *Clause) (mt modTarget) {
	defer func() {
		if r := recover(); r != nil {
			if er, ok := r.(error); ok {
				panic(fmt.Errorf("%s:%d: %v", shortFile(m.File), m.Line, er))
			}
			panic(r)
		}
	}()
	x := m.E
	for x.Kind == "paren" {
		x = x.X
	}
	if x.Kind == "un" && x.Op == "*" {
		// the object a pointer expression points to
		v := env.eval(x.X)
		p, ok := v.Typ.Underlying().(*types.Pointer)
		if !ok || v.Ptr == nil {
			specErr("modifies *e: e is not a pointer")
		}
		if v.Ptr.Cell != nil {
			return modTarget{cell: v.Ptr.Cell}
		}
		if !v.Ptr.isRoot() {
			specErr("modifies: interior pointer")
		}
		return modTarget{obj: v.leaves()[0], otype: p.Elem(), lo: 0, hi: len(leafSorts(p.Elem()))}
	}
	if x.Kind == "slice" || x.Kind == "ident" {
		v := env.eval(x)
		if sl, ok := v.Typ.Underlying().(*types.Slice); ok {
			l := v.leaves()
			return modTarget{elem: true, sl: l[:3], et: sl.Elem()}
		}
		if p, ok := v.Typ.Underlying().(*types.Pointer); ok {
			if v.Ptr != nil && v.Ptr.Cell != nil {
				return modTarget{cell: v.Ptr.Cell}
			}
			if v.Ptr != nil && !v.Ptr.isRoot() {
				specErr("modifies: interior pointer")
			}
			return modTarget{obj: v.leaves()[0], otype: p.Elem(), lo: 0, hi: len(leafSorts(p.Elem()))}
		}
		specErr("modifies target %s has type %s", m.Text, v.Typ)
	}
	if x.Kind == "sel" {
		base := env.eval(x.X)
		if base.Ptr == nil {
			specErr("modifies target %s: base is not a pointer", m.Text)
		}
		stt, ok := base.Ptr.Typ.Underlying().(*types.Struct)
		if !ok {
			specErr("modifies target %s: not a struct", m.Text)
		}
		path, _ := findField(stt, x.Name)
		if path == nil {
			specErr("modifies: no field %s", x.Name)
		}
		a := *base.Ptr
		cur := stt
		for _, fi := range path {
			lo, hi := fieldRange(cur, fi)
			a.Hi = a.Lo + hi
			a.Lo = a.Lo + lo
			if ns, ok := cur.Field(fi).Type().Underlying().(*types.Struct); ok {
				cur = ns
			}
		}
		if a.Cell != nil {
			return modTarget{cell: a.Cell}
		}
		if a.Elem || len(a.Idx) > 0 {
			specErr("modifies target inside an element")
		}
		return modTarget{obj: a.Root, otype: a.RType, lo: a.Lo, hi: a.Hi}
	}
	specErr("unsupported modifies target %s", m.Text)
	return
}

func (c *Ctx) havocTarget(st *State, env *Env, m *Clause) {
	mt := c.evalTarget(env, m)
	switch {
	case mt.cell != nil:
		st.cells[mt.cell] = c.havocVal(st, mt.cell.Typ, "mod."+mt.cell.Name)
	case mt.elem:
		ss := leafSorts(mt.et)
		for j, s := range ss {
			k := HKey{Elem: true, T: typeKey(mt.et), Leaf: j}
			h := c.heapGet(st, k, heapSort(true, s))
			oldA := Select(h, mt.sl[0])
			fa := Fresh("mod."+k.String(), oldA.S)
			i := BoundVar("i", BV(64))
			in := And(ULe(mt.sl[1], i), ULt(i, Add(mt.sl[1], mt.sl[2])))
			na := Lambda(i, Ite(in, Select(fa, i), Select(oldA, i)))
			st.heap[k] = Store(h, mt.sl[0], na)
		}
	default:
		ss := leafSorts(mt.otype)
		for j := mt.lo; j < mt.hi; j++ {
			k := HKey{T: typeKey(mt.otype), Leaf: j}
			h := c.heapGet(st, k, heapSort(false, ss[j]))
			nv := Fresh("mod."+k.String(), ss[j])
			st.heap[k] = Store(h, mt.obj, nv)
		}
	}
}

// ---- verifying one function against its contract ----

type FnResult struct {
	Name      string
	Key       string
	Props     []string
	Obls      []*Obligation
	Err       string // unsupported / spec error: function is undecided
	Abstracts map[string]int
	Notes     []string
	Assumes   []*Term
	Secs      float64
	IsLemma   bool
	Trusted   bool
	Unrolled  int
	Trivial   int
	NRequires int // number of assumptions in force once the preconditions are assumed (vacuity check)
	HasReq    bool
}

func (w *World) newCtx(name string, props []string) *Ctx {
	c := &Ctx{W: w, FnName: name, Props: props, h0: map[HKey]*Term{}}
	c.clk0 = Var("clk0", RefSort)
	c.assumes = append(c.assumes, w.initFacts...)
	c.assume(True, And(ULe(Const(32, w.initClk), c.clk0), ULt(c.clk0, Const(32, 0x40000000))))
	return c
}

func (w *World) newState(c *Ctx) *State {
	return &State{pc: True, cells: map[*Cell]*Val{}, heap: map[HKey]*Term{}, clk: c.clk0, regs: map[ssa.Value]*Val{}}
}

func (c *Ctx) flushGlobalInv(st *State) {
	for len(c.pendingGlobalInv) > 0 {
		v := c.pendingGlobalInv[0]
		c.pendingGlobalInv = c.pendingGlobalInv[1:]
		// globals exist before the function starts
		save := st.clk
		st.clk = c.clk0
		if inv := c.typeInvariant(st, v); !inv.IsTrue() {
			c.assume(True, inv)
		}
		st.clk = save
	}
}

func (w *World) findFunction(key string) *ssa.Function {
	// key: pkgpath.[Type.]Name
	for path, sp := range w.Pkgs {
		if !strings.HasPrefix(key, path+".") {
			continue
		}
		rest := key[len(path)+1:]
		if strings.Contains(rest, "/") {
			continue
		}
		parts := strings.Split(rest, ".")
		switch len(parts) {
		case 1:
			if fn := sp.Func(parts[0]); fn != nil {
				return fn
			}
		case 2:
			tm, ok := sp.Members[parts[0]].(*ssa.Type)
			if !ok {
				continue
			}
			t := tm.Type()
			for _, tt := range []types.Type{types.NewPointer(t), t} {
				ms := w.Prog.MethodSets.MethodSet(tt)
				for i := 0; i < ms.Len(); i++ {
					sel := ms.At(i)
					if sel.Obj().Name() == parts[1] {
						if fn := w.Prog.MethodValue(sel); fn != nil && fn.Synthetic == "" {
							return fn
						}
						if fn := w.Prog.MethodValue(sel); fn != nil {
							// wrapper: find declared function
							if d := w.Prog.FuncValue(sel.Obj().(*types.Func)); d != nil {
								return d
							}
						}
					}
				}
			}
		}
	}
	return nil
}

func (w *World) verifyFunction(fc *FuncContract) (res *FnResult) {
	if len(fc.Cases) > 0 {
		// complete case split over the truth values of the listed conditions:
		// each case is a straight-line path through the corresponding branches
		var all *FnResult
		n := len(fc.Cases)
		for mask := 0; mask < 1<<uint(n); mask++ {
			if only := os.Getenv("GOVC_CASE"); only != "" && only != fmt.Sprint(mask) {
				continue
			}
			tag := "[case "
			for i := 0; i < n; i++ {
				if mask&(1<<uint(i)) != 0 {
					tag += "1"
				} else {
					tag += "0"
				}
			}
			tag += "]"
			r := w.verifyFunctionCase(fc, mask, tag)
			if all == nil {
				all = r
				for _, o := range r.Obls {
					o.caseAssumes = r.Assumes
				}
			} else {
				for _, o := range r.Obls {
					o.caseAssumes = r.Assumes
				}
				all.Obls = append(all.Obls, r.Obls...)
				all.Trivial += r.Trivial
				if r.Err != "" && all.Err == "" {
					all.Err = r.Err
				}
			}
		}
		return all
	}
	if fc.SplitParam == "" {
		return w.verifyFunctionWith(fc, nil, "")
	}
	// complete enumeration of a small integer parameter: the body is executed
	// once per value, so table look-ups fold to constants
	var all *FnResult
	for v := fc.SplitLo; v <= fc.SplitHi; v++ {
		val := uint64(v)
		r := w.verifyFunctionWith(fc, &val, fmt.Sprintf("[%s=%d]", fc.SplitParam, v))
		if all == nil {
			all = r
		} else {
			// each case has its own assumption list: keep obligations self-contained
			for _, o := range r.Obls {
				o.caseAssumes = r.Assumes
			}
			all.Obls = append(all.Obls, r.Obls...)
			all.Trivial += r.Trivial
			if r.Err != "" && all.Err == "" {
				all.Err = r.Err
			}
		}
	}
	return all
}

func (w *World) verifyFunctionWith(fc *FuncContract, splitVal *uint64, tag string) (res *FnResult) {
	return w.verifyFunctionMode(fc, splitVal, tag, 0)
}

func (w *World) verifyFunctionCase(fc *FuncContract, mask int, tag string) (res *FnResult) {
	w.caseMask = mask
	w.caseActive = true
	defer func() { w.caseActive = false }()
	return w.verifyFunctionMode(fc, nil, tag, 0)
}

func (w *World) verifyFunctionMode(fc *FuncContract, splitVal *uint64, tag string, bmc int) (res *FnResult) {
	res = &FnResult{Name: shortName(fc.Key), Key: fc.Key, Props: fc.Props, Trusted: fc.Trusted}
	fn := w.findFunction(fc.Key)
	if fn == nil {
		res.Err = "function not found (renamed or removed?)"
		return
	}
	if fc.Trusted {
		return
	}
	c := w.newCtx(res.Name, fc.Props)
	c.bmc = bmc
	c.noSafety = fc.NoSafety
	if fc.NoSafety {
		c.abstracted("run-time safety obligations of this function are assumed (nosafety): only its contract clauses are proved")
	}
	defer func() {
		res.Abstracts = c.abstracts
		res.Notes = c.notes
		res.Assumes = c.assumes
		res.Obls = c.obls
		res.Unrolled = c.unrolled
		res.Trivial = c.trivial
		if r := recover(); r != nil {
			switch e := r.(type) {
			case unsupported:
				res.Err = e.Error()
			case error:
				if strings.Contains(e.Error(), "spec:") {
					res.Err = e.Error()
				} else {
					panic(r)
				}
			default:
				panic(r)
			}
		}
	}()
	st := w.newState(c)
	args := make([]*Val, len(fn.Params))
	for i, p := range fn.Params {
		v := freshVal(p.Type(), "in."+p.Name())
		if splitVal != nil && p.Name() == fc.SplitParam {
			if wd, _, ok := isIntType(p.Type()); ok {
				v = intVal(p.Type(), Const(wd, *splitVal))
			}
		}
		args[i] = v
		if inv := c.typeInvariant(st, v); !inv.IsTrue() {
			c.assume(True, inv)
		}
	}
	c.caseTag = tag
	c.declareInputs(st, fn, args)
	env := c.contractEnv(fn, st, args)
	for _, r := range fc.Requires {
		c.assume(True, c.evalClause(env, r))
	}
	if w.caseActive {
		c.knownTrue = map[*Term]bool{}
		for i, cl := range fc.Cases {
			t := c.evalClause(env, cl)
			if w.caseMask&(1<<uint(i)) == 0 {
				t = Not(t)
			}
			c.assume(True, t)
			c.knownTrue[t] = true
		}
	}
	c.flushGlobalInv(st)
	res.NRequires = len(c.assumes)
	res.HasReq = len(fc.Requires) > 0
	entry := st.clone()
	if len(fc.GhostSums) > 0 {
		c.ghostFC = fc
		c.ghostEnv = c.contractEnv(fn, entry, args)
	}
	c.stack = []*ssa.Function{fn}
	fi := w.fnInfo(fn)
	fr := &frame{fn: fn, fi: fi, pending: map[*ssa.BasicBlock][]edgeState{}, fc: fc, entry: entry, entryVars: env.vars}
	for i, p := range fn.Params {
		st.regs[p] = args[i]
	}
	c.curFrame = fr
	fr.pending[fn.Blocks[0]] = []edgeState{{nil, st}}
	c.runNodes(fr, fi.top)
	c.flushGlobalInv(entry)
	// postconditions at every return, merged
	var live []retState
	for _, r := range fr.rets {
		if !r.st.pc.IsFalse() {
			live = append(live, r)
		}
	}
	if len(live) == 0 {
		c.note("no path returns")
		return
	}
	var es []edgeState
	for _, r := range live {
		es = append(es, edgeState{nil, r.st})
	}
	nres := fn.Signature.Results().Len()
	var rvals []*Val
	if nres > 0 {
		rvals = append([]*Val(nil), live[len(live)-1].res...)
		for i := len(live) - 2; i >= 0; i-- {
			for j := range rvals {
				rvals[j] = iteVal(live[i].st.pc, live[i].res[j], rvals[j])
			}
		}
	}
	out := c.mergeStates(es)
	post := c.contractEnv(fn, out, args)
	post.old = entry
	post.oldEnv = env
	// local variables of the function are visible in postconditions (their
	// final values), after parameters and results
	{
		saveRegs := out.regs
		allRegs := map[ssa.Value]*Val{}
		for _, r := range live {
			for k, v := range r.st.regs {
				if _, isAlloc := k.(*ssa.Alloc); isAlloc {
					if o, ok := allRegs[k]; !ok || sameVal(o, v) {
						allRegs[k] = v
					}
				}
			}
		}
		for k, v := range saveRegs {
			allRegs[k] = v
		}
		out.regs = allRegs
		post.lookup = c.localLookup(fr, out, token.NoPos)
	}
	var rv *Val
	switch nres {
	case 0:
	case 1:
		rv = rvals[0]
	default:
		rv = makeTuple(fn.Signature.Results(), rvals)
	}
	if rv != nil {
		c.bindResults(post, fn, rv)
	}
	for _, en := range fc.Ensures {
		cond := c.evalClause(post, en)
		c.obligeCase(out, "ensures", en.Text, True, cond)
	}
	// vacuity probes: the hypothesis of every conditional postcondition must
	// be reachable at the function's exit (expected answer: sat). An exit
	// made infeasible by a contradictory assumption would otherwise "prove"
	// every such postcondition.
	seenAnte := map[string]bool{}
	for _, en := range fc.Ensures {
		x := en.E
		for x.Kind == "paren" {
			x = x.X
		}
		if x.Kind != "bin" || x.Op != "==>" || len(fc.Cases) > 0 {
			continue
		}
		txt := anteText(en.Text)
		if seenAnte[txt] {
			continue
		}
		seenAnte[txt] = true
		ante := post.evalBool(x.X)
		c.obligeCase(out, "vacuity", "reachable:"+txt, True, Not(ante))
	}
	for _, rc := range fc.Resets {
		c.checkReset(post, out, rc)
	}
	if fc.hasSpec() && !fc.ModAny && len(fc.AbstractCallees) == 0 {
		c.frameCheck(fc, fn, env, out)
	}
	return
}

// anteText: the text before the first top-level "==>" of a clause.
func anteText(s string) string {
	depth := 0
	for i := 0; i+2 < len(s); i++ {
		switch s[i] {
		case '(', '[':
			depth++
		case ')', ']':
			depth--
		}
		if depth == 0 && s[i] == '=' && s[i+1] == '=' && s[i+2] == '>' && (i == 0 || s[i-1] != '<') {
			return strings.TrimSpace(s[:i])
		}
	}
	return s
}

// frameCheck: everything allocated before the call and not named in
// `modifies` is unchanged at return.
func (c *Ctx) frameCheck(fc *FuncContract, fn *ssa.Function, env *Env, out *State) {
	var targets []modTarget
	for _, m := range fc.Modifies {
		targets = append(targets, c.evalTarget(env, m))
	}
	keys := make([]HKey, 0, len(out.heap))
	for k := range out.heap {
		keys = append(keys, k)
	}
	sort.Slice(keys, func(i, j int) bool { return keys[i].String() < keys[j].String() })
	for _, k := range keys {
		hout := out.heap[k]
		hin := c.h0var(k, hout.S)
		if hout == hin {
			continue
		}
		if strings.HasPrefix(k.T, "box:") {
			continue
		}
		r := BoundVar("r", RefSort)
		pre := []*Term{ULt(r, c.clk0)}
		if !k.Elem {
			for _, t := range targets {
				if t.obj != nil && typeKey(t.otype) == k.T && k.Leaf >= t.lo && k.Leaf < t.hi {
					pre = append(pre, Neq(r, t.obj))
				}
			}
			goal := Forall([]*Term{r}, Implies(And(pre...), Eq(Select(hout, r), Select(hin, r))))
			c.obligeCase(out, "frame", k.String(), True, goal)
		} else {
			i := BoundVar("i", BV(64))
			for _, t := range targets {
				if t.elem && typeKey(t.et) == k.T {
					in := And(Eq(r, t.sl[0]), ULe(t.sl[1], i), ULt(i, Add(t.sl[1], t.sl[2])))
					pre = append(pre, Not(in))
				}
			}
			goal := Forall([]*Term{r, i}, Implies(And(pre...), Eq(Select(Select(hout, r), i), Select(Select(hin, r), i))))
			c.obligeCase(out, "frame", k.String(), True, goal)
		}
	}
}

func (w *World) verifyLemma(lm *Lemma) (res *FnResult) {
	res = &FnResult{Name: shortName(lm.PkgPath) + ".lemma." + lm.Name, Key: lm.PkgPath + ".lemma." + lm.Name, Props: lm.Props, IsLemma: true}
	if strings.HasPrefix(res.Name, modulePath) {
		res.Name = "webp.lemma." + lm.Name
	}
	c := w.newCtx(res.Name, lm.Props)
	defer func() {
		res.Abstracts = c.abstracts
		res.Notes = c.notes
		res.Assumes = c.assumes
		res.Obls = c.obls
		res.Unrolled = c.unrolled
		res.Trivial = c.trivial
		if r := recover(); r != nil {
			switch e := r.(type) {
			case unsupported:
				res.Err = e.Error()
			case error:
				if strings.Contains(e.Error(), "spec:") {
					res.Err = e.Error()
				} else {
					panic(r)
				}
			default:
				panic(r)
			}
		}
	}()
	st := w.newState(c)
	sp := w.Pkgs[lm.PkgPath]
	env := &Env{c: c, st: st, vars: map[string]*Val{}, pkg: sp.Pkg}
	for _, p := range lm.Params {
		t := w.resolveType(p.T, sp.Pkg)
		v := freshVal(t, "in."+p.Name)
		if inv := c.typeInvariant(st, v); !inv.IsTrue() {
			c.assume(True, inv)
		}
		env.vars[p.Name] = v
		for j, l := range v.L {
			c.inputs = append(c.inputs, &InputVar{Name: fmt.Sprintf("%s#%d", p.Name, j), Term: l})
		}
	}
	for _, r := range lm.Requires {
		c.assume(True, c.evalClause(env, r))
	}
	c.flushGlobalInv(st)
	for _, en := range lm.Ensures {
		e2 := *env
		e2.owned = false
		e2.st = st.clone()
		cond := c.evalClause(&e2, en)
		c.flushGlobalInv(st)
		if len(lm.Splits) == 0 {
			c.oblige(st, "lemma", en.Text, token.NoPos, cond)
			continue
		}
		// case split over every value of a small term (complete enumeration)
		sp := lm.Splits[0]
		sv := env.eval(sp.E)
		if len(sv.L) != 1 || sv.L[0].S.Kind != SBV || sv.L[0].S.W > 10 {
			specErr("split expression must be an integer of at most 10 bits")
		}
		w := sv.L[0].S.W
		for v := uint64(0); v < 1<<uint(w); v++ {
			hyp := Eq(sv.L[0], Const(w, v))
			sub := Subst(cond, map[*Term]*Term{})
			_ = sub
			c.obligeCase(st, "lemma", fmt.Sprintf("%s:case(%s=%d)", en.Text, sp.Text, v), hyp, cond)
		}
	}
	return
}

// checkReset: field-by-field reset contract of a pooled object.
func (c *Ctx) checkReset(post *Env, out *State, rc *ResetClause) {
	defer func() {
		if r := recover(); r != nil {
			if er, ok := r.(error); ok {
				panic(fmt.Errorf("%s:%d: %v", shortFile(rc.File), rc.Line, er))
			}
			panic(r)
		}
	}()
	pv := post.eval(rc.Target.E)
	pt, ok := pv.Typ.Underlying().(*types.Pointer)
	if !ok || pv.Ptr == nil {
		specErr("resets: target is not a pointer")
	}
	stt, ok := pt.Elem().Underlying().(*types.Struct)
	if !ok {
		specErr("resets: target does not point to a struct")
	}
	listed := map[string]bool{}
	for _, f := range rc.Zero {
		listed[f] = true
	}
	for _, f := range rc.Scratch {
		listed[f] = true
	}
	// coverage: every field of the struct is classified
	var missing []string
	for i := 0; i < stt.NumFields(); i++ {
		if !listed[stt.Field(i).Name()] {
			missing = append(missing, stt.Field(i).Name())
		}
	}
	cov := True
	if len(missing) > 0 {
		cov = False
	}
	c.obligeCase1(out, "reset", "coverage("+rc.Target.Text+"):"+strings.Join(missing, ","), True, cov)
	nonNil := Neq(pv.leaves()[0], Const(32, 0))
	for _, f := range rc.Zero {
		path, ft := findField(stt, f)
		if path == nil {
			c.obligeCase1(out, "reset", "zero("+rc.Target.Text+"."+f+"):no-such-field", True, False)
			continue
		}
		lo, hi := fieldRange(stt, path[0])
		a := *pv.Ptr
		a.Lo, a.Hi = pv.Ptr.Lo+lo, pv.Ptr.Lo+hi
		a.Typ = ft
		cur := c.loadAddrQuiet(out, &a)
		z := zeroVal(ft)
		c.obligeCase(out, "reset", "zero("+rc.Target.Text+"."+f+")", nonNil, eqTyped(ft, cur.leaves(), z.leaves()))
	}
}

// eqTyped compares two flattened values of Go type t; fixed-size arrays are
// compared on their N elements only (the SMT arrays are total).
func eqTyped(t types.Type, a, b []*Term) *Term {
	switch u := t.Underlying().(type) {
	case *types.Array:
		n := u.Len()
		var cs []*Term
		if n <= 64 {
			for i := int64(0); i < n; i++ {
				ix := Const(64, uint64(i))
				ea := make([]*Term, len(a))
				eb := make([]*Term, len(b))
				for j := range a {
					ea[j] = Select(a[j], ix)
					eb[j] = Select(b[j], ix)
				}
				cs = append(cs, eqTyped(u.Elem(), ea, eb))
			}
			return And(cs...)
		}
		i := BoundVar("i", BV(64))
		ea := make([]*Term, len(a))
		eb := make([]*Term, len(b))
		for j := range a {
			ea[j] = Select(a[j], i)
			eb[j] = Select(b[j], i)
		}
		return Forall([]*Term{i}, Implies(ULt(i, Const(64, uint64(n))), eqTyped(u.Elem(), ea, eb)))
	case *types.Struct:
		var cs []*Term
		lo := 0
		for i := 0; i < u.NumFields(); i++ {
			n := len(leafSorts(u.Field(i).Type()))
			cs = append(cs, eqTyped(u.Field(i).Type(), a[lo:lo+n], b[lo:lo+n]))
			lo += n
		}
		return And(cs...)
	}
	cs := make([]*Term, len(a))
	for i := range a {
		cs[i] = Eq(a[i], b[i])
	}
	return And(cs...)
}
