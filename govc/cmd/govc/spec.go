package main

// Contract language: parser for //@ clauses and the expression evaluator.

import (
	"fmt"
	"go/constant"
	"go/token"
	"go/types"
	"os"
	"path/filepath"
	"strconv"
	"strings"

	"golang.org/x/tools/go/ssa"
)

type Clause struct {
	Text string
	E    *Expr
	Line int
	File string
}

type LoopContract struct {
	Invariants []*Clause
	Decreases  *Clause
	Cuts       []*Clause // "loop N: cut P": intermediate facts proved at the back edge (over the locals of the body) before the invariants, which may then use them
}

type FuncContract struct {
	Key      string // full name
	PkgPath  string
	Props    []string
	Requires []*Clause
	Ensures  []*Clause
	Modifies []*Clause
	HasMod   bool // a modifies clause was given (possibly "nothing")
	Loops    map[int]*LoopContract
	Asserts  []*CallSite
	Inline   bool
	Trusted  bool
	NoSafety bool // run-time safety obligations of the function body are assumed, only contract clauses are proved
	Checked  bool // set once verified in this run with all obligations discharged
	Tier     string
	File     string
	Line     int
	Fields   []*Clause // reset-coverage classification (C11)
	AbstractCallees []string // calls havocked while verifying this function
	ModAny   bool // "modifies *": no frame is claimed
	InlineCallees []string // callees whose bodies are used instead of their contracts here
	Cases    []*Clause // verify once per truth assignment of these boolean expressions
	SplitParam string // enumerate this integer parameter over [SplitLo, SplitHi]
	SplitLo, SplitHi int64
	Resets   []*ResetClause
	IndexAsserts []*CallSite // "index <slice expr>: assert P(idx)"
	GhostSums []*PureFunc // "ghostsum G(i int) T = term(i)": prefix sums over the entry state
}

// ResetClause: "resets <ptr expr> zero: f1, f2 scratch: g1, g2" classifies
// every field of the pointed-to struct: zero fields must equal their zero
// value at return; scratch fields are documented as overwritten before use.
type ResetClause struct {
	Target  *Clause
	Zero    []string
	Scratch []string
	When    *Clause
	Line    int
	File    string
}

type CallSite struct {
	Callee string
	Occ    int // -1: all
	C      *Clause
}

func (f *FuncContract) hasSpec() bool {
	return len(f.Ensures) > 0 || f.HasMod || len(f.Resets) > 0
}
func (f *FuncContract) hasRequires() bool { return len(f.Requires) > 0 }

type Param struct {
	Name    string
	T       *TypeExpr
	Bounded bool // "in lo..hi": expanded into a finite conjunction/disjunction
	Lo, Hi  uint64
}

type PureFunc struct {
	Name    string
	PkgPath string
	Params  []Param
	Res     *TypeExpr
	Body    *Expr
}

type Lemma struct {
	Name     string
	PkgPath  string
	Params   []Param
	Props    []string
	Requires []*Clause
	Ensures  []*Clause
	Splits   []*Clause
	Tier     string
	File     string
	Line     int
}

type TypeExpr struct {
	Kind string // "name","slice","ptr","array"
	Pkg  string
	Name string
	Elem *TypeExpr
	N    int
}

type Expr struct {
	Kind string // int, ident, bin, un, call, sel, index, slice, cond, quant, paren, comp
	Op   string
	X    *Expr
	Y    *Expr
	Z    *Expr
	Name string
	Val  uint64
	Args []*Expr
	Vars []Param
	T    *TypeExpr
}

// ---- tokenizer ----

type tok struct {
	k string // "id","int","op","eof"
	s string
	v uint64
}

func lexSpec(s string) ([]tok, error) {
	var out []tok
	i := 0
	ops := []string{"<==>", "==>", "&&", "||", "==", "!=", "<=", ">=", "<<", ">>", "&^", "::", "+", "-", "*", "/", "%", "&", "|", "^", "!", "<", ">", "(", ")", "[", "]", "{", "}", ",", ".", ":", "?", "="}
	for i < len(s) {
		ch := s[i]
		if ch == ' ' || ch == '\t' {
			i++
			continue
		}
		if ch == '/' && i+1 < len(s) && s[i+1] == '/' {
			break
		}
		if ch >= '0' && ch <= '9' {
			j := i
			for j < len(s) && (isAlnum(s[j]) || s[j] == '_') {
				j++
			}
			txt := strings.ReplaceAll(s[i:j], "_", "")
			v, err := strconv.ParseUint(txt, 0, 64)
			if err != nil {
				return nil, fmt.Errorf("bad number %q", s[i:j])
			}
			out = append(out, tok{k: "int", s: s[i:j], v: v})
			i = j
			continue
		}
		if isAlpha(ch) {
			j := i
			for j < len(s) && isAlnum(s[j]) {
				j++
			}
			out = append(out, tok{k: "id", s: s[i:j]})
			i = j
			continue
		}
		if ch == '\'' && i+2 < len(s) && s[i+2] == '\'' {
			out = append(out, tok{k: "int", s: s[i : i+3], v: uint64(s[i+1])})
			i += 3
			continue
		}
		matched := false
		for _, op := range ops {
			if strings.HasPrefix(s[i:], op) {
				out = append(out, tok{k: "op", s: op})
				i += len(op)
				matched = true
				break
			}
		}
		if !matched {
			return nil, fmt.Errorf("unexpected character %q", ch)
		}
	}
	out = append(out, tok{k: "eof"})
	return out, nil
}

func isAlpha(c byte) bool { return c == '_' || (c >= 'a' && c <= 'z') || (c >= 'A' && c <= 'Z') }
func isAlnum(c byte) bool { return isAlpha(c) || (c >= '0' && c <= '9') }

type sparser struct {
	t []tok
	p int
}

func (p *sparser) peek() tok { return p.t[p.p] }
func (p *sparser) next() tok { t := p.t[p.p]; p.p++; return t }
func (p *sparser) isOp(s string) bool {
	t := p.peek()
	return t.k == "op" && t.s == s
}
func (p *sparser) accept(s string) bool {
	if p.isOp(s) {
		p.p++
		return true
	}
	return false
}
func (p *sparser) expect(s string) {
	if !p.accept(s) {
		panic(fmt.Errorf("expected %q, found %q", s, p.peek().s))
	}
}

func parseExprString(s string) (e *Expr, err error) {
	toks, err := lexSpec(s)
	if err != nil {
		return nil, err
	}
	p := &sparser{t: toks}
	defer func() {
		if r := recover(); r != nil {
			if er, ok := r.(error); ok {
				err = er
				return
			}
			panic(r)
		}
	}()
	e = p.parseExpr()
	if p.peek().k != "eof" {
		return nil, fmt.Errorf("unexpected %q after expression", p.peek().s)
	}
	return e, nil
}

func (p *sparser) parseExpr() *Expr {
	c := p.parseIff()
	if p.accept("?") {
		a := p.parseExpr()
		p.expect(":")
		b := p.parseExpr()
		return &Expr{Kind: "cond", X: c, Y: a, Z: b}
	}
	return c
}

func (p *sparser) parseIff() *Expr {
	x := p.parseImpl()
	for p.accept("<==>") {
		y := p.parseImpl()
		x = &Expr{Kind: "bin", Op: "<==>", X: x, Y: y}
	}
	return x
}

func (p *sparser) parseImpl() *Expr {
	x := p.parseOr()
	if p.accept("==>") {
		y := p.parseImpl()
		return &Expr{Kind: "bin", Op: "==>", X: x, Y: y}
	}
	return x
}

func (p *sparser) parseOr() *Expr {
	x := p.parseAnd()
	for p.accept("||") {
		x = &Expr{Kind: "bin", Op: "||", X: x, Y: p.parseAnd()}
	}
	return x
}

func (p *sparser) parseAnd() *Expr {
	x := p.parseCmp()
	for p.accept("&&") {
		x = &Expr{Kind: "bin", Op: "&&", X: x, Y: p.parseCmp()}
	}
	return x
}

func (p *sparser) parseCmp() *Expr {
	x := p.parseAdd()
	for _, op := range []string{"==", "!=", "<=", ">=", "<", ">"} {
		if p.accept(op) {
			return &Expr{Kind: "bin", Op: op, X: x, Y: p.parseAdd()}
		}
	}
	return x
}

func (p *sparser) parseAdd() *Expr {
	x := p.parseMul()
	for {
		found := false
		for _, op := range []string{"+", "-", "|", "^"} {
			if p.isOp(op) {
				p.p++
				x = &Expr{Kind: "bin", Op: op, X: x, Y: p.parseMul()}
				found = true
				break
			}
		}
		if !found {
			return x
		}
	}
}

func (p *sparser) parseMul() *Expr {
	x := p.parseUnary()
	for {
		found := false
		for _, op := range []string{"*", "/", "%", "<<", ">>", "&^", "&"} {
			if p.isOp(op) {
				p.p++
				x = &Expr{Kind: "bin", Op: op, X: x, Y: p.parseUnary()}
				found = true
				break
			}
		}
		if !found {
			return x
		}
	}
}

func (p *sparser) parseUnary() *Expr {
	for _, op := range []string{"-", "!", "^", "+", "*", "&"} {
		if p.accept(op) {
			return &Expr{Kind: "un", Op: op, X: p.parseUnary()}
		}
	}
	return p.parsePostfix()
}

func (p *sparser) parsePostfix() *Expr {
	x := p.parsePrimary()
	for {
		switch {
		case p.accept("."):
			t := p.next()
			if t.k == "int" {
				x = &Expr{Kind: "tupleat", X: x, Val: t.v}
				continue
			}
			if t.k != "id" {
				panic(fmt.Errorf("expected field name after '.'"))
			}
			x = &Expr{Kind: "sel", X: x, Name: t.s}
		case p.accept("["):
			var lo, hi *Expr
			if !p.isOp(":") {
				lo = p.parseExpr()
			}
			if p.accept(":") {
				if !p.isOp("]") {
					hi = p.parseExpr()
				}
				p.expect("]")
				x = &Expr{Kind: "slice", X: x, Y: lo, Z: hi}
			} else {
				p.expect("]")
				x = &Expr{Kind: "index", X: x, Y: lo}
			}
		case p.accept("("):
			var args []*Expr
			for !p.isOp(")") {
				args = append(args, p.parseExpr())
				if !p.accept(",") {
					break
				}
			}
			p.expect(")")
			x = &Expr{Kind: "call", X: x, Args: args}
		default:
			return x
		}
	}
}

func (p *sparser) parsePrimary() *Expr {
	t := p.next()
	switch t.k {
	case "int":
		return &Expr{Kind: "int", Val: t.v}
	case "id":
		switch t.s {
		case "forall", "exists":
			var vars []Param
			for {
				n := p.next()
				if n.k != "id" {
					panic(fmt.Errorf("expected bound variable name"))
				}
				names := []string{n.s}
				for p.accept(",") {
					n2 := p.next()
					names = append(names, n2.s)
				}
				ty := p.parseType()
				pr := Param{T: ty}
				if p.peek().k == "id" && p.peek().s == "in" {
					p.next()
					lo := p.next()
					p.expect(".")
					p.expect(".")
					hi := p.next()
					if lo.k != "int" || hi.k != "int" {
						panic(fmt.Errorf("expected 'in lo..hi' with integer literals"))
					}
					pr.Bounded, pr.Lo, pr.Hi = true, lo.v, hi.v
				}
				for _, nm := range names {
					q := pr
					q.Name = nm
					vars = append(vars, q)
				}
				if p.accept("::") {
					break
				}
				p.expect(",")
			}
			body := p.parseExpr()
			return &Expr{Kind: "quant", Op: t.s, Vars: vars, X: body}
		}
		return &Expr{Kind: "ident", Name: t.s}
	case "op":
		if t.s == "(" {
			e := p.parseExpr()
			p.expect(")")
			return &Expr{Kind: "paren", X: e}
		}
		if t.s == "[" || t.s == "*" {
			// type conversion such as []byte(x) is not supported
		}
	}
	panic(fmt.Errorf("unexpected token %q", t.s))
}

func (p *sparser) parseType() *TypeExpr {
	if p.accept("*") {
		return &TypeExpr{Kind: "ptr", Elem: p.parseType()}
	}
	if p.accept("[") {
		if p.accept("]") {
			return &TypeExpr{Kind: "slice", Elem: p.parseType()}
		}
		n := p.next()
		p.expect("]")
		return &TypeExpr{Kind: "array", N: int(n.v), Elem: p.parseType()}
	}
	t := p.next()
	if t.k != "id" {
		panic(fmt.Errorf("expected type, found %q", t.s))
	}
	if p.accept(".") {
		n := p.next()
		return &TypeExpr{Kind: "name", Pkg: t.s, Name: n.s}
	}
	return &TypeExpr{Kind: "name", Name: t.s}
}

// ---- contract files ----

func (w *World) loadContracts(dir string) error {
	for path, pp := range w.PPkgs {
		if !strings.HasPrefix(path, modulePath) {
			continue
		}
		if len(pp.GoFiles) == 0 {
			continue
		}
		pdir := filepath.Dir(pp.GoFiles[0])
		matches, _ := filepath.Glob(filepath.Join(pdir, "zz_contracts*_verif.go"))
		for _, file := range matches {
			if err := w.parseContractFile(path, file); err != nil {
				return err
			}
		}
	}
	return nil
}

func (w *World) parseContractFile(pkgPath, file string) error {
	data, err := os.ReadFile(file)
	if err != nil {
		return err
	}
	lines := strings.Split(string(data), "\n")
	var cur *FuncContract
	var curLemma *Lemma
	fail := func(n int, f string, a ...interface{}) error {
		return fmt.Errorf("%s:%d: %s", file, n+1, fmt.Sprintf(f, a...))
	}
	// join continuation lines (ending with backslash)
	type ln struct {
		s string
		n int
	}
	var ls []ln
	for i := 0; i < len(lines); i++ {
		l := strings.TrimSpace(lines[i])
		if !strings.HasPrefix(l, "//@") {
			continue
		}
		s := strings.TrimSpace(l[3:])
		n := i
		for strings.HasSuffix(s, "\\") && i+1 < len(lines) {
			i++
			nx := strings.TrimSpace(lines[i])
			nx = strings.TrimSpace(strings.TrimPrefix(nx, "//@"))
			s = strings.TrimSuffix(s, "\\") + " " + nx
		}
		ls = append(ls, ln{s, n})
	}
	mkClause := func(text string, n int) (*Clause, error) {
		e, err := parseExprString(text)
		if err != nil {
			return nil, fail(n, "%v in %q", err, text)
		}
		return &Clause{Text: normText(text), E: e, Line: n + 1, File: file}, nil
	}
	for _, l := range ls {
		s := l.s
		if s == "" {
			continue
		}
		word, rest := splitWord(s)
		switch word {
		case "func":
			key, err := parseFuncHeader(pkgPath, rest)
			if err != nil {
				return fail(l.n, "%v", err)
			}
			if _, dup := w.contracts[key]; dup {
				return fail(l.n, "duplicate contract for %s", key)
			}
			cur = &FuncContract{Key: key, PkgPath: pkgPath, Loops: map[int]*LoopContract{}, File: file, Line: l.n + 1, Tier: "quick"}
			curLemma = nil
			w.contracts[key] = cur
		case "lemma":
			lm, err := parseLemmaHeader(rest)
			if err != nil {
				return fail(l.n, "%v", err)
			}
			lm.PkgPath = pkgPath
			lm.File = file
			lm.Line = l.n + 1
			lm.Tier = "quick"
			w.lemmas = append(w.lemmas, lm)
			curLemma = lm
			cur = nil
		case "pure":
			pf, err := parsePureFunc(rest)
			if err != nil {
				return fail(l.n, "%v", err)
			}
			pf.PkgPath = pkgPath
			w.pureFuncs[pkgPath+"."+pf.Name] = pf
			if _, ok := w.pureFuncs[pf.Name]; !ok {
				w.pureFuncs[pf.Name] = pf
			}
		case "ghostsum":
			if cur == nil {
				return fail(l.n, "ghostsum outside func")
			}
			gs, err := parsePureFunc("func " + rest)
			if err != nil {
				return fail(l.n, "%v", err)
			}
			if len(gs.Params) != 1 || gs.Res == nil {
				return fail(l.n, "expected 'ghostsum G(i int) T = term'")
			}
			gs.PkgPath = pkgPath
			cur.GhostSums = append(cur.GhostSums, gs)
		case "property":
			props := strings.Fields(rest)
			if cur != nil {
				cur.Props = append(cur.Props, props...)
			} else if curLemma != nil {
				curLemma.Props = append(curLemma.Props, props...)
			}
		case "tier":
			if cur != nil {
				cur.Tier = strings.TrimSpace(rest)
			} else if curLemma != nil {
				curLemma.Tier = strings.TrimSpace(rest)
			}
		case "requires", "ensures":
			cl, err := mkClause(rest, l.n)
			if err != nil {
				return err
			}
			if cur != nil {
				if word == "requires" {
					cur.Requires = append(cur.Requires, cl)
				} else {
					cur.Ensures = append(cur.Ensures, cl)
				}
			} else if curLemma != nil {
				if word == "requires" {
					curLemma.Requires = append(curLemma.Requires, cl)
				} else {
					curLemma.Ensures = append(curLemma.Ensures, cl)
				}
			} else {
				return fail(l.n, "clause outside func/lemma")
			}
		case "split":
			if cur != nil {
				// function: "split <param> lo..hi" verifies the body once per value
				f := strings.Fields(rest)
				if len(f) != 2 || !strings.Contains(f[1], "..") {
					return fail(l.n, "expected 'split <param> lo..hi'")
				}
				b := strings.SplitN(f[1], "..", 2)
				lo, err1 := strconv.ParseInt(b[0], 0, 64)
				hi, err2 := strconv.ParseInt(b[1], 0, 64)
				if err1 != nil || err2 != nil || hi < lo || hi-lo > 100000 {
					return fail(l.n, "bad split range")
				}
				cur.SplitParam, cur.SplitLo, cur.SplitHi = f[0], lo, hi
				continue
			}
			if curLemma == nil {
				return fail(l.n, "split outside lemma")
			}
			cl, err := mkClause(rest, l.n)
			if err != nil {
				return err
			}
			curLemma.Splits = append(curLemma.Splits, cl)
		case "modifies":
			if cur == nil {
				return fail(l.n, "modifies outside func")
			}
			cur.HasMod = true
			if strings.TrimSpace(rest) == "*" {
				cur.ModAny = true
			} else if strings.TrimSpace(rest) != "nothing" {
				for _, part := range splitTop(rest, ',') {
					cl, err := mkClause(part, l.n)
					if err != nil {
						return err
					}
					cur.Modifies = append(cur.Modifies, cl)
				}
			}
		case "loop":
			if cur == nil {
				return fail(l.n, "loop clause outside func")
			}
			idx := strings.Index(rest, ":")
			if idx < 0 {
				return fail(l.n, "expected 'loop N: ...'")
			}
			k, err := strconv.Atoi(strings.TrimSpace(rest[:idx]))
			if err != nil {
				return fail(l.n, "bad loop ordinal")
			}
			w2, r2 := splitWord(strings.TrimSpace(rest[idx+1:]))
			lc := cur.Loops[k]
			if lc == nil {
				lc = &LoopContract{}
				cur.Loops[k] = lc
			}
			cl, err := mkClause(r2, l.n)
			if err != nil {
				return err
			}
			switch w2 {
			case "invariant":
				lc.Invariants = append(lc.Invariants, cl)
			case "decreases":
				lc.Decreases = cl
			case "cut":
				lc.Cuts = append(lc.Cuts, cl)
			default:
				return fail(l.n, "unknown loop clause %q", w2)
			}
		case "index":
			if cur == nil {
				return fail(l.n, "index clause outside func")
			}
			ix := strings.Index(rest, ":")
			if ix < 0 {
				return fail(l.n, "expected 'index <expr>: assert ...'")
			}
			w3, r3 := splitWord(strings.TrimSpace(rest[ix+1:]))
			if w3 != "assert" {
				return fail(l.n, "expected assert")
			}
			icl, err := mkClause(r3, l.n)
			if err != nil {
				return err
			}
			cur.IndexAsserts = append(cur.IndexAsserts, &CallSite{Callee: normText(rest[:ix]), Occ: -1, C: icl})
		case "callsite":
			if cur == nil {
				return fail(l.n, "callsite outside func")
			}
			idx := strings.Index(rest, ":")
			if idx < 0 {
				return fail(l.n, "expected 'callsite F: assert ...'")
			}
			callee := strings.TrimSpace(rest[:idx])
			occ := -1
			if h := strings.Index(callee, "#"); h >= 0 {
				occ, _ = strconv.Atoi(callee[h+1:])
				callee = callee[:h]
			}
			w2, r2 := splitWord(strings.TrimSpace(rest[idx+1:]))
			if w2 != "assert" {
				return fail(l.n, "expected assert")
			}
			cl, err := mkClause(r2, l.n)
			if err != nil {
				return err
			}
			cur.Asserts = append(cur.Asserts, &CallSite{Callee: callee, Occ: occ, C: cl})
		case "resets":
			if cur == nil {
				return fail(l.n, "resets outside func")
			}
			zi := strings.Index(rest, " zero:")
			if zi < 0 {
				return fail(l.n, "expected 'resets <expr> zero: ... scratch: ...'")
			}
			tcl, err := mkClause(rest[:zi], l.n)
			if err != nil {
				return err
			}
			rc := &ResetClause{Target: tcl, Line: l.n + 1, File: file}
			body := rest[zi+6:]
			scr := ""
			if si := strings.Index(body, "scratch:"); si >= 0 {
				scr = body[si+8:]
				body = body[:si]
			}
			for _, f := range strings.FieldsFunc(body, func(r rune) bool { return r == ',' || r == ' ' }) {
				rc.Zero = append(rc.Zero, f)
			}
			for _, f := range strings.FieldsFunc(scr, func(r rune) bool { return r == ',' || r == ' ' }) {
				rc.Scratch = append(rc.Scratch, f)
			}
			cur.Resets = append(cur.Resets, rc)
		case "cases":
			if cur == nil {
				return fail(l.n, "cases outside func")
			}
			for _, part := range splitTop(rest, ',') {
				cl, err := mkClause(part, l.n)
				if err != nil {
					return err
				}
				cur.Cases = append(cur.Cases, cl)
			}
			if len(cur.Cases) > 6 {
				return fail(l.n, "at most 6 case expressions")
			}
		case "abstract":
			if cur == nil {
				return fail(l.n, "abstract outside func")
			}
			for _, part := range splitTop(rest, ',') {
				if part != "" {
					cur.AbstractCallees = append(cur.AbstractCallees, part)
				}
			}
		case "inline":
			if cur != nil {
				if strings.TrimSpace(rest) == "" {
					cur.Inline = true
				} else {
					for _, part := range splitTop(rest, ',') {
						if part != "" {
							cur.InlineCallees = append(cur.InlineCallees, part)
						}
					}
				}
			}
		case "trusted":
			if cur != nil {
				cur.Trusted = true
			}
		case "nosafety":
			if cur != nil {
				cur.NoSafety = true
			}
		default:
			return fail(l.n, "unknown clause %q", word)
		}
	}
	return nil
}

func splitWord(s string) (string, string) {
	s = strings.TrimSpace(s)
	i := strings.IndexAny(s, " \t")
	if i < 0 {
		return s, ""
	}
	return s[:i], strings.TrimSpace(s[i+1:])
}

func splitTop(s string, sep byte) []string {
	var out []string
	depth := 0
	start := 0
	for i := 0; i < len(s); i++ {
		switch s[i] {
		case '(', '[':
			depth++
		case ')', ']':
			depth--
		default:
			if s[i] == sep && depth == 0 {
				out = append(out, strings.TrimSpace(s[start:i]))
				start = i + 1
			}
		}
	}
	out = append(out, strings.TrimSpace(s[start:]))
	return out
}

func parseFuncHeader(pkgPath, rest string) (string, error) {
	rest = strings.TrimSpace(rest)
	if strings.HasPrefix(rest, "(") {
		end := strings.Index(rest, ")")
		if end < 0 {
			return "", fmt.Errorf("bad receiver")
		}
		recv := strings.Fields(strings.TrimSpace(rest[1:end]))
		tname := recv[len(recv)-1]
		tname = strings.TrimPrefix(tname, "*")
		name := strings.TrimSpace(rest[end+1:])
		if i := strings.IndexAny(name, "( "); i >= 0 {
			name = name[:i]
		}
		return pkgPath + "." + tname + "." + name, nil
	}
	name := rest
	if i := strings.IndexAny(name, "( "); i >= 0 {
		name = name[:i]
	}
	return pkgPath + "." + name, nil
}

func parseParams(s string) ([]Param, error) {
	toks, err := lexSpec(s)
	if err != nil {
		return nil, err
	}
	p := &sparser{t: toks}
	var out []Param
	var perr error
	func() {
		defer func() {
			if r := recover(); r != nil {
				if e, ok := r.(error); ok {
					perr = e
					return
				}
				panic(r)
			}
		}()
		for p.peek().k != "eof" {
			names := []string{p.next().s}
			for p.accept(",") {
				names = append(names, p.next().s)
			}
			t := p.parseType()
			for _, n := range names {
				out = append(out, Param{Name: n, T: t})
			}
			if !p.accept(",") {
				break
			}
		}
	}()
	return out, perr
}

func parseLemmaHeader(rest string) (*Lemma, error) {
	i := strings.Index(rest, "(")
	j := strings.LastIndex(rest, ")")
	if i < 0 || j < i {
		return nil, fmt.Errorf("expected lemma name(params)")
	}
	ps, err := parseParams(rest[i+1 : j])
	if err != nil {
		return nil, err
	}
	return &Lemma{Name: strings.TrimSpace(rest[:i]), Params: ps}, nil
}

func parsePureFunc(rest string) (*PureFunc, error) {
	w, r := splitWord(rest)
	if w != "func" {
		return nil, fmt.Errorf("expected 'pure func'")
	}
	i := strings.Index(r, "(")
	depth := 0
	j := -1
	for k := i; k < len(r); k++ {
		if r[k] == '(' {
			depth++
		} else if r[k] == ')' {
			depth--
			if depth == 0 {
				j = k
				break
			}
		}
	}
	if i < 0 || j < 0 {
		return nil, fmt.Errorf("expected pure func name(params) T = expr")
	}
	ps, err := parseParams(r[i+1 : j])
	if err != nil {
		return nil, err
	}
	after := r[j+1:]
	eq := strings.Index(after, "=")
	if eq < 0 {
		return nil, fmt.Errorf("expected '=' in pure func")
	}
	// careful: result type precedes '='; '==' cannot occur in a type
	rt := strings.TrimSpace(after[:eq])
	toks, err := lexSpec(rt)
	if err != nil {
		return nil, err
	}
	pp := &sparser{t: toks}
	var res *TypeExpr
	if pp.peek().k != "eof" {
		res = pp.parseType()
	}
	body, err := parseExprString(after[eq+1:])
	if err != nil {
		return nil, err
	}
	return &PureFunc{Name: strings.TrimSpace(r[:i]), Params: ps, Res: res, Body: body}, nil
}

// ---- evaluation ----

type Env struct {
	c      *Ctx
	st     *State
	old    *State
	oldEnv *Env
	vars   map[string]*Val
	pkg    *types.Package
	lookup func(name string) *Val // local variables of the function (loop invariants)
	owned  bool                   // st is a private copy
	bound  map[string]*Val        // quantified variables (visible inside old() too)
}

func (e *Env) child() *Env {
	n := *e
	n.vars = map[string]*Val{}
	for k, v := range e.vars {
		n.vars[k] = v
	}
	return &n
}

var untypedInt = types.Typ[types.UntypedInt]

func specErr(format string, a ...interface{}) {
	panic(fmt.Errorf("spec: "+format, a...))
}

func (w *World) resolveType(te *TypeExpr, pkg *types.Package) types.Type {
	switch te.Kind {
	case "slice":
		return types.NewSlice(w.resolveType(te.Elem, pkg))
	case "ptr":
		return types.NewPointer(w.resolveType(te.Elem, pkg))
	case "array":
		return types.NewArray(w.resolveType(te.Elem, pkg), int64(te.N))
	}
	if te.Pkg != "" {
		for _, imp := range pkg.Imports() {
			if imp.Name() == te.Pkg {
				if o := imp.Scope().Lookup(te.Name); o != nil {
					if tn, ok := o.(*types.TypeName); ok {
						return tn.Type()
					}
				}
			}
		}
		// any loaded package with that name
		for _, sp := range w.Pkgs {
			if sp.Pkg.Name() == te.Pkg {
				if o := sp.Pkg.Scope().Lookup(te.Name); o != nil {
					if tn, ok := o.(*types.TypeName); ok {
						return tn.Type()
					}
				}
			}
		}
		specErr("unknown type %s.%s", te.Pkg, te.Name)
	}
	if o := types.Universe.Lookup(te.Name); o != nil {
		if tn, ok := o.(*types.TypeName); ok {
			return tn.Type()
		}
	}
	if pkg != nil {
		if o := pkg.Scope().Lookup(te.Name); o != nil {
			if tn, ok := o.(*types.TypeName); ok {
				return tn.Type()
			}
		}
	}
	specErr("unknown type %s", te.Name)
	return nil
}

func (e *Env) evalBool(x *Expr) *Term {
	v := e.eval(x)
	if !isBoolType(v.Typ) {
		specErr("expected boolean expression, got %s", v.Typ)
	}
	return v.T()
}

func (e *Env) privateState() *State {
	if !e.owned {
		e.st = e.st.clone()
		e.owned = true
	}
	return e.st
}

// unify converts an untyped constant operand to the other operand's type.
func unify(a, b *Val) (*Val, *Val) {
	au := a.Typ == untypedInt
	bu := b.Typ == untypedInt
	if au && !bu {
		if w, _, ok := isIntType(b.Typ); ok {
			return intVal(b.Typ, convW(a.T(), w)), b
		}
	}
	if bu && !au {
		if w, _, ok := isIntType(a.Typ); ok {
			return a, intVal(a.Typ, convW(b.T(), w))
		}
	}
	return a, b
}

func (e *Env) eval(x *Expr) *Val {
	c := e.c
	switch x.Kind {
	case "int":
		return intVal(untypedInt, Const(64, x.Val))
	case "paren":
		return e.eval(x.X)
	case "ident":
		return e.evalIdent(x.Name)
	case "un":
		if x.Op == "&" {
			a := e.evalAddr(x.X)
			return ptrVal(types.NewPointer(a.Typ), a)
		}
		v := e.eval(x.X)
		switch x.Op {
		case "!":
			return boolVal(Not(v.T()))
		case "-":
			return intVal(v.Typ, Neg(v.T()))
		case "^":
			return intVal(v.Typ, BNot(v.T()))
		case "+":
			return v
		case "*":
			return e.deref(v)
		}
	case "addr":
	case "bin":
		return e.evalBin(x)
	case "cond":
		cnd := e.evalBool(x.X)
		a, b := unify(e.eval(x.Y), e.eval(x.Z))
		return iteVal(cnd, a, b)
	case "quant":
		if len(x.Vars) > 0 && x.Vars[0].Bounded {
			// finite expansion over lo..hi-1
			v := x.Vars[0]
			t := c.W.resolveType(v.T, e.pkg)
			w, _, ok := isIntType(t)
			if !ok {
				specErr("bounded quantifier variable %s must be an integer", v.Name)
			}
			rest := &Expr{Kind: "quant", Op: x.Op, Vars: x.Vars[1:], X: x.X}
			var parts []*Term
			for k := v.Lo; k < v.Hi; k++ {
				ne := e.child()
				nb := map[string]*Val{}
				for k2, v2 := range ne.bound {
					nb[k2] = v2
				}
				nb[v.Name] = intVal(t, Const(w, k))
				ne.bound = nb
				if len(rest.Vars) == 0 {
					parts = append(parts, ne.evalBool(x.X))
				} else {
					parts = append(parts, ne.evalBool(rest))
				}
			}
			if x.Op == "forall" {
				return boolVal(And(parts...))
			}
			return boolVal(Or(parts...))
		}
		ne := e.child()
		var bound []*Term
		for _, v := range x.Vars {
			t := c.W.resolveType(v.T, e.pkg)
			ss := leafSorts(t)
			if len(ss) != 1 {
				specErr("bound variable %s must be scalar", v.Name)
			}
			b := BoundVar(v.Name, ss[0])
			bound = append(bound, b)
			nb := map[string]*Val{}
			for k2, v2 := range ne.bound {
				nb[k2] = v2
			}
			nb[v.Name] = mkVal(t, []*Term{b})
			ne.bound = nb
		}
		body := ne.evalBool(x.X)
		var pats [][]*Term
		for bi, b := range bound {
			nb, nbody, pat := reindexBound(b, body)
			if nb != nil {
				bound[bi] = nb
				body = nbody
				if pat != nil {
					pats = append(pats, []*Term{pat})
				}
			}
		}
		if x.Op == "forall" {
			if len(bound) == 1 && len(pats) == 1 {
				return boolVal(Forall(bound, body, pats...))
			}
			return boolVal(Forall(bound, body))
		}
		return boolVal(Exists(bound, body))
	case "sel":
		return e.evalSel(x)
	case "tupleat":
		tv := e.eval(x.X)
		if _, ok := tv.Typ.(*types.Tuple); !ok {
			specErr(".%d on a non-tuple value", x.Val)
		}
		return tupleAt(tv, int(x.Val))
	case "index":
		base := e.eval(x.X)
		idx := e.eval(x.Y)
		i := e.toIdx(idx)
		return e.indexVal(base, i)
	case "slice":
		base := e.eval(x.X)
		if base.Ptr != nil && base.L == nil || isPtrType(base.Typ) {
			base = e.deref(base)
		}
		if _, ok := base.Typ.Underlying().(*types.Slice); !ok {
			specErr("slice expression on %s", base.Typ)
		}
		l := base.leaves()
		lo := Const(64, 0)
		hi := l[2]
		if x.Y != nil {
			lo = e.toIdx(e.eval(x.Y))
		}
		if x.Z != nil {
			hi = e.toIdx(e.eval(x.Z))
		}
		return mkVal(base.Typ, []*Term{l[0], Add(l[1], lo), Sub(hi, lo), Sub(l[3], lo)})
	case "call":
		return e.evalCall(x)
	}
	specErr("cannot evaluate %s expression", x.Kind)
	return nil
}

func isPtrType(t types.Type) bool {
	_, ok := t.Underlying().(*types.Pointer)
	return ok
}

func (e *Env) toIdx(v *Val) *Term {
	if v.Typ == untypedInt {
		return v.T()
	}
	w, signed, ok := isIntType(v.Typ)
	if !ok {
		specErr("index must be an integer")
	}
	if w == 64 {
		return v.T()
	}
	if signed {
		return SExt(v.T(), 64)
	}
	return ZExt(v.T(), 64)
}

func (e *Env) deref(p *Val) *Val {
	if p.Ptr == nil {
		specErr("dereference of non-pointer %s", p.Typ)
	}
	return e.c.loadAddr(e.st, p.Ptr)
}

func (e *Env) indexVal(base *Val, i *Term) *Val {
	if isPtrType(base.Typ) {
		base = e.deref(base)
	}
	switch u := base.Typ.Underlying().(type) {
	case *types.Slice:
		l := base.leaves()
		et := u.Elem()
		a := &Addr{Root: l[0], RType: et, Elem: true, EIdx: Add(l[1], i), Lo: 0, Hi: len(leafSorts(et)), Typ: et}
		return e.c.loadAddrQuiet(e.st, a)
	case *types.Array:
		l := base.leaves()
		out := make([]*Term, len(l))
		for j := range l {
			out[j] = Select(l[j], i)
		}
		return mkVal(u.Elem(), out)
	}
	specErr("index on %s", base.Typ)
	return nil
}

// loadAddrQuiet loads without adding type-invariant assumptions under a
// quantifier (bound variables must not leak into global assumptions).
func (c *Ctx) loadAddrQuiet(st *State, a *Addr) *Val {
	hasB := false
	if a.EIdx != nil && a.EIdx.hasB {
		hasB = true
	}
	if a.Root != nil && a.Root.hasB {
		hasB = true
	}
	for _, i := range a.Idx {
		if i.hasB {
			hasB = true
		}
	}
	if !hasB {
		return c.loadAddr(st, a)
	}
	n := len(c.assumes)
	v := c.loadAddr(st, a)
	c.assumes = c.assumes[:n]
	return v
}

func (e *Env) evalIdent(name string) *Val {
	switch name {
	case "true":
		return boolVal(True)
	case "false":
		return boolVal(False)
	case "nil":
		return &Val{Typ: types.Typ[types.UntypedNil], L: []*Term{Const(32, 0)}}
	}
	if v, ok := e.bound[name]; ok {
		return v
	}
	if v, ok := e.vars[name]; ok {
		return v
	}
	if e.lookup != nil {
		if v := e.lookup(name); v != nil {
			return v
		}
	}
	if e.pkg != nil {
		if v := e.pkgMember(e.pkg, name); v != nil {
			return v
		}
	}
	specErr("unknown identifier %q", name)
	return nil
}

func (e *Env) pkgMember(pkg *types.Package, name string) *Val {
	o := pkg.Scope().Lookup(name)
	if o == nil {
		return nil
	}
	switch ob := o.(type) {
	case *types.Const:
		t := ob.Type()
		if w, _, ok := isIntType(t); ok {
			var u uint64
			if i, ok := constant.Int64Val(constant.ToInt(ob.Val())); ok {
				u = uint64(i)
			} else if uu, ok := constant.Uint64Val(constant.ToInt(ob.Val())); ok {
				u = uu
			}
			if b, ok := t.(*types.Basic); ok && b.Info()&types.IsUntyped != 0 {
				return intVal(untypedInt, Const(64, u))
			}
			return intVal(t, Const(w, u))
		}
		if isBoolType(t) {
			return boolVal(BoolConst(constant.BoolVal(ob.Val())))
		}
		specErr("constant %s of unsupported type", name)
	case *types.Var:
		sp := e.c.W.Prog.Package(pkg)
		if sp == nil {
			return nil
		}
		g, ok := sp.Members[name].(*ssa.Global)
		if !ok {
			return nil
		}
		p := e.c.W.globalPtr(e.c, e.st, g)
		return e.c.loadAddr(e.st, p.Ptr)
	}
	return nil
}

func (e *Env) evalSel(x *Expr) *Val {
	// package-qualified name?
	if x.X.Kind == "ident" {
		if _, isVar := e.vars[x.X.Name]; !isVar && (e.lookup == nil || e.lookup(x.X.Name) == nil) && e.pkg != nil {
			if p := e.findPkg(x.X.Name); p != nil {
				if v := e.pkgMember(p, x.Name); v != nil {
					return v
				}
				specErr("unknown member %s.%s", x.X.Name, x.Name)
			}
		}
	}
	base := e.eval(x.X)
	for isPtrType(base.Typ) {
		if base.Ptr == nil {
			specErr("selector on opaque pointer")
		}
		// field address then load only the field
		stt, ok := base.Ptr.Typ.Underlying().(*types.Struct)
		if !ok {
			base = e.deref(base)
			continue
		}
		path, ft := findField(stt, x.Name)
		if path == nil {
			specErr("no field %s in %s", x.Name, base.Ptr.Typ)
		}
		a := *base.Ptr
		cur := stt
		for _, fi := range path {
			lo, hi := fieldRange(cur, fi)
			a.Hi = a.Lo + hi
			a.Lo = a.Lo + lo
			a.Typ = cur.Field(fi).Type()
			if ns, ok := a.Typ.Underlying().(*types.Struct); ok {
				cur = ns
			}
		}
		_ = ft
		return e.c.loadAddrQuiet(e.st, &a)
	}
	stt, ok := base.Typ.Underlying().(*types.Struct)
	if !ok {
		specErr("selector .%s on %s", x.Name, base.Typ)
	}
	path, _ := findField(stt, x.Name)
	if path == nil {
		specErr("no field %s in %s", x.Name, base.Typ)
	}
	l := base.leaves()
	cur := stt
	var ft types.Type
	for _, fi := range path {
		lo, hi := fieldRange(cur, fi)
		l = l[lo:hi]
		ft = cur.Field(fi).Type()
		if ns, ok := ft.Underlying().(*types.Struct); ok {
			cur = ns
		}
	}
	return mkVal(ft, l)
}

// findField finds a (possibly promoted) field; returns index path.
func findField(st *types.Struct, name string) ([]int, types.Type) {
	for i := 0; i < st.NumFields(); i++ {
		if st.Field(i).Name() == name {
			return []int{i}, st.Field(i).Type()
		}
	}
	for i := 0; i < st.NumFields(); i++ {
		f := st.Field(i)
		if f.Embedded() {
			if es, ok := f.Type().Underlying().(*types.Struct); ok {
				if p, t := findField(es, name); p != nil {
					return append([]int{i}, p...), t
				}
			}
		}
	}
	return nil, nil
}

func (e *Env) findPkg(name string) *types.Package {
	for _, imp := range e.pkg.Imports() {
		if imp.Name() == name {
			return imp
		}
	}
	for _, sp := range e.c.W.Pkgs {
		if sp.Pkg.Name() == name && strings.HasPrefix(sp.Pkg.Path(), modulePath) {
			return sp.Pkg
		}
	}
	return nil
}

func (e *Env) evalBin(x *Expr) *Val {
	switch x.Op {
	case "==>":
		return boolVal(Implies(e.evalBool(x.X), e.evalBool(x.Y)))
	case "<==>":
		return boolVal(Eq(e.evalBool(x.X), e.evalBool(x.Y)))
	case "&&":
		return boolVal(And(e.evalBool(x.X), e.evalBool(x.Y)))
	case "||":
		return boolVal(Or(e.evalBool(x.X), e.evalBool(x.Y)))
	}
	a := e.eval(x.X)
	b := e.eval(x.Y)
	if x.Op == "<<" || x.Op == ">>" {
		if a.Typ == untypedInt {
			// constant shifted: keep 64-bit untyped
		}
		w, signed, ok := isIntType(a.Typ)
		if !ok {
			specErr("shift of non-integer")
		}
		if a.Typ == untypedInt {
			w, signed = 64, true
		}
		cnt := convW(b.T(), w)
		if b.T().S.W > w {
			cnt = Ite(ULt(b.T(), Const(b.T().S.W, uint64(w))), cnt, Const(w, uint64(w)))
		}
		if x.Op == "<<" {
			return intVal(a.Typ, Shl(a.T(), cnt))
		}
		if signed {
			return intVal(a.Typ, AShr(a.T(), cnt))
		}
		return intVal(a.Typ, LShr(a.T(), cnt))
	}
	a, b = unify(a, b)
	// nil comparisons
	if a.Typ == types.Typ[types.UntypedNil] || b.Typ == types.Typ[types.UntypedNil] {
		o := a
		if a.Typ == types.Typ[types.UntypedNil] {
			o = b
		}
		var isnil *Term
		if o.Ptr != nil && o.L == nil {
			if o.Ptr.Cell != nil {
				isnil = False
			} else {
				isnil = Eq(o.Ptr.Root, Const(32, 0))
			}
		} else {
			isnil = Eq(o.leaves()[0], Const(32, 0))
		}
		if x.Op == "==" {
			return boolVal(isnil)
		}
		if x.Op == "!=" {
			return boolVal(Not(isnil))
		}
		specErr("bad operator with nil")
	}
	if w, signed, ok := isIntType(a.Typ); ok {
		if a.Typ == untypedInt {
			signed = true
		}
		bw, _, bok := isIntType(b.Typ)
		if !bok || bw != w {
			specErr("mismatched integer types %s and %s in %q", a.Typ, b.Typ, x.Op)
		}
		if !types.Identical(a.Typ.Underlying(), b.Typ.Underlying()) && a.Typ != untypedInt && b.Typ != untypedInt {
			specErr("mismatched integer types %s and %s in %q", a.Typ, b.Typ, x.Op)
		}
		p, q := a.T(), b.T()
		switch x.Op {
		case "+":
			return intVal(a.Typ, Add(p, q))
		case "-":
			return intVal(a.Typ, Sub(p, q))
		case "*":
			return intVal(a.Typ, Mul(p, q))
		case "/":
			if signed {
				return intVal(a.Typ, SDiv(p, q))
			}
			return intVal(a.Typ, UDiv(p, q))
		case "%":
			if signed {
				return intVal(a.Typ, SRem(p, q))
			}
			return intVal(a.Typ, URem(p, q))
		case "&":
			return intVal(a.Typ, BAnd(p, q))
		case "|":
			return intVal(a.Typ, BOr(p, q))
		case "^":
			return intVal(a.Typ, BXor(p, q))
		case "&^":
			return intVal(a.Typ, BAnd(p, BNot(q)))
		case "==":
			return boolVal(Eq(p, q))
		case "!=":
			return boolVal(Neq(p, q))
		case "<":
			if signed {
				return boolVal(SLt(p, q))
			}
			return boolVal(ULt(p, q))
		case "<=":
			if signed {
				return boolVal(SLe(p, q))
			}
			return boolVal(ULe(p, q))
		case ">":
			if signed {
				return boolVal(SLt(q, p))
			}
			return boolVal(ULt(q, p))
		case ">=":
			if signed {
				return boolVal(SLe(q, p))
			}
			return boolVal(ULe(q, p))
		}
	}
	switch x.Op {
	case "==":
		return boolVal(eqVal(a, b))
	case "!=":
		return boolVal(Not(eqVal(a, b)))
	}
	specErr("operator %s on %s", x.Op, a.Typ)
	return nil
}

func (e *Env) evalCall(x *Expr) *Val {
	c := e.c
	// method-like or package-qualified function
	var fname string
	var pkg *types.Package = e.pkg
	switch x.X.Kind {
	case "ident":
		fname = x.X.Name
	case "sel":
		if x.X.X.Kind == "ident" {
			if p := e.findPkg(x.X.X.Name); p != nil {
				if _, isVar := e.vars[x.X.X.Name]; !isVar {
					pkg = p
					fname = x.X.Name
				}
			}
		}
		if fname == "" {
			// method call on a value: recv.Method(args)
			recv := e.eval(x.X.X)
			if !isPtrType(recv.Typ) {
				// pointer-receiver method on an addressable operand
				ms := c.W.Prog.MethodSets.MethodSet(recv.Typ)
				if ms.Lookup(e.pkg, x.X.Name) == nil && ms.Lookup(nil, x.X.Name) == nil {
					pms := c.W.Prog.MethodSets.MethodSet(types.NewPointer(recv.Typ))
					if pms.Lookup(e.pkg, x.X.Name) != nil || pms.Lookup(nil, x.X.Name) != nil {
						a := e.evalAddr(x.X.X)
						recv = ptrVal(types.NewPointer(recv.Typ), a)
					}
				}
			}
			return e.callMethod(recv, x.X.Name, x.Args)
		}
	default:
		specErr("unsupported call form")
	}
	switch fname {
	case "old":
		if e.old == nil {
			specErr("old() not available here")
		}
		ne := *e
		ne.st = e.old
		ne.owned = false
		if e.oldEnv != nil {
			ne.vars = e.oldEnv.vars
			ne.lookup = e.oldEnv.lookup
		}
		return ne.eval(x.Args[0])
	case "len", "cap":
		v := e.eval(x.Args[0])
		if isPtrType(v.Typ) {
			v = e.deref(v)
		}
		switch u := v.Typ.Underlying().(type) {
		case *types.Slice:
			if fname == "len" {
				return intVal(types.Typ[types.Int], v.leaves()[2])
			}
			return intVal(types.Typ[types.Int], v.leaves()[3])
		case *types.Array:
			return intVal(types.Typ[types.Int], Const(64, uint64(u.Len())))
		case *types.Basic:
			if isStringType(v.Typ) {
				return intVal(types.Typ[types.Int], v.leaves()[1])
			}
		}
		specErr("len of %s", v.Typ)
	case "min", "max":
		a, b := unify(e.eval(x.Args[0]), e.eval(x.Args[1]))
		_, signed, _ := isIntType(a.Typ)
		if a.Typ == untypedInt {
			signed = true
		}
		var lt *Term
		if signed {
			lt = SLt(a.T(), b.T())
		} else {
			lt = ULt(a.T(), b.T())
		}
		if fname == "min" {
			return intVal(a.Typ, Ite(lt, a.T(), b.T()))
		}
		return intVal(a.Typ, Ite(lt, b.T(), a.T()))
	case "dynptr":
		// the pointer stored in an interface value (0 for a nil pointer)
		v := e.eval(x.Args[0])
		if _, ok := v.Typ.Underlying().(*types.Interface); !ok {
			specErr("dynptr of non-interface")
		}
		return intVal(types.Typ[types.Uint32], v.leaves()[1])
	case "base":
		// identity of the backing array of a slice
		v := e.eval(x.Args[0])
		return intVal(types.Typ[types.Uint32], v.leaves()[0])
	case "offset":
		v := e.eval(x.Args[0])
		return intVal(types.Typ[types.Int], v.leaves()[1])
	case "fresh":
		// allocated during this call: not reachable at entry
		v := e.eval(x.Args[0])
		var r *Term
		if v.Ptr != nil && v.L == nil {
			r = v.Ptr.Root
		} else {
			r = v.leaves()[0]
			if _, ok := v.Typ.Underlying().(*types.Interface); ok {
				r = v.leaves()[1]
			}
		}
		return boolVal(Not(ULt(r, c.clk0)))
	case "typeis":
		v := e.eval(x.Args[0])
		te := exprToType(x.Args[1])
		t := c.W.resolveType(te, e.pkg)
		return boolVal(Eq(v.leaves()[0], Const(32, uint64(c.W.typeTag(t)))))
	case "wlog":
		// ghost byte written at absolute log position i
		g := c.ghostLog(e.st)
		return intVal(types.Typ[types.Uint8], Select(g.L[0], e.toIdx(e.eval(x.Args[0]))))
	case "wlen":
		g := c.ghostLog(e.st)
		return intVal(types.Typ[types.Int], g.L[1])
	}
	// conversion to a type?
	if t := e.tryType(pkg, fname); t != nil && len(x.Args) == 1 {
		v := e.eval(x.Args[0])
		if v.Typ == untypedInt {
			if w, _, ok := isIntType(t); ok {
				return intVal(t, convW(v.T(), w))
			}
		}
		if isBoolType(v.Typ) {
			specErr("cannot convert bool")
		}
		return c.convert(e.privateState(), v, v.Typ, t)
	}
	if c.ghostFC != nil && x.X.Kind == "ident" {
		for _, gs := range c.ghostFC.GhostSums {
			if gs.Name == fname {
				return e.evalGhostSum(gs, x.Args)
			}
		}
	}
	if pf := e.findPure(pkg, fname); pf != nil {
		if len(pf.Params) != len(x.Args) {
			specErr("pure func %s: wrong argument count", fname)
		}
		ne := e.child()
		ne.lookup = nil
		ne.vars = map[string]*Val{}
		ppkg := pkg
		if sp, ok := c.W.Pkgs[pf.PkgPath]; ok {
			ppkg = sp.Pkg
		}
		for i, p := range pf.Params {
			v := e.eval(x.Args[i])
			pt := c.W.resolveType(p.T, ppkg)
			if v.Typ == untypedInt {
				if w, _, ok := isIntType(pt); ok {
					v = intVal(pt, convW(v.T(), w))
				}
			}
			if !sameLayout(v.Typ, pt) {
				specErr("pure func %s: argument %s has type %s, want %s", fname, p.Name, v.Typ, pt)
			}
			nv := *v
			nv.Typ = pt
			ne.vars[p.Name] = &nv
		}
		ne.pkg = ppkg
		r := ne.eval(pf.Body)
		if pf.Res != nil {
			rt := c.W.resolveType(pf.Res, ppkg)
			if r.Typ == untypedInt {
				if w, _, ok := isIntType(rt); ok {
					r = intVal(rt, convW(r.T(), w))
				}
			}
			nr := *r
			nr.Typ = rt
			return &nr
		}
		return r
	}
	// a real Go function of the package: execute its body symbolically
	if sp := c.W.Prog.Package(pkg); sp != nil {
		if fn := sp.Func(fname); fn != nil {
			if strings.HasPrefix(strings.ToLower(fname), "spec") {
				if v := e.callSpecOpaque(fn, x.Args); v != nil {
					return v
				}
			}
			return e.callGo(fn, nil, x.Args)
		}
	}
	specErr("unknown function %q", fname)
	return nil
}

func sameLayout(a, b types.Type) bool {
	if types.Identical(a, b) {
		return true
	}
	la, lb := leafSorts(a), leafSorts(b)
	if len(la) != len(lb) {
		return false
	}
	for i := range la {
		if la[i] != lb[i] {
			return false
		}
	}
	return true
}

func exprToType(x *Expr) *TypeExpr {
	switch x.Kind {
	case "ident":
		return &TypeExpr{Kind: "name", Name: x.Name}
	case "sel":
		if x.X.Kind == "ident" {
			return &TypeExpr{Kind: "name", Pkg: x.X.Name, Name: x.Name}
		}
	case "un":
		if x.Op == "*" {
			return &TypeExpr{Kind: "ptr", Elem: exprToType(x.X)}
		}
	case "paren":
		return exprToType(x.X)
	}
	specErr("expected a type")
	return nil
}

func (e *Env) tryType(pkg *types.Package, name string) types.Type {
	if o := types.Universe.Lookup(name); o != nil {
		if tn, ok := o.(*types.TypeName); ok {
			return tn.Type()
		}
		return nil
	}
	if pkg != nil {
		if o := pkg.Scope().Lookup(name); o != nil {
			if tn, ok := o.(*types.TypeName); ok {
				return tn.Type()
			}
		}
	}
	return nil
}

func (e *Env) findPure(pkg *types.Package, name string) *PureFunc {
	if pkg != nil {
		if pf, ok := e.c.W.pureFuncs[pkg.Path()+"."+name]; ok {
			return pf
		}
	}
	if pf, ok := e.c.W.pureFuncs[name]; ok {
		return pf
	}
	return nil
}

func (e *Env) callGo(fn *ssa.Function, recv *Val, argExprs []*Expr) *Val {
	c := e.c
	var args []*Val
	if recv != nil {
		args = append(args, recv)
	}
	params := fn.Signature.Params()
	for i, ax := range argExprs {
		v := e.eval(ax)
		if i < params.Len() {
			pt := params.At(i).Type()
			if v.Typ == untypedInt {
				if w, _, ok := isIntType(pt); ok {
					v = intVal(pt, convW(v.T(), w))
				}
			}
			if v.Typ == types.Typ[types.UntypedNil] {
				v = zeroVal(pt)
			}
		}
		args = append(args, v)
	}
	if fn.Blocks == nil {
		specErr("function %s has no body", fn.Name())
	}
	st := e.privateState()
	c.quiet++
	saveVia := c.viaStack
	nAssume := len(c.assumes)
	defer func() {
		c.quiet--
		c.viaStack = saveVia
		// facts recorded while executing the body must not mention
		// quantified variables of the enclosing specification
		kept := c.assumes[:nAssume]
		for _, a := range c.assumes[nAssume:] {
			if !a.hasB {
				kept = append(kept, a)
			}
		}
		c.assumes = kept
	}()
	if !c.canInline(fn) {
		specErr("cannot inline %s in specification", fn.Name())
	}
	res := c.inlineCall(st, fn, nil, args, token.NoPos)
	if res == nil && fn.Signature.Results().Len() > 0 {
		specErr("function %s does not return", fn.Name())
	}
	return res
}

func (e *Env) callMethod(recv *Val, name string, args []*Expr) *Val {
	c := e.c
	t := recv.Typ
	ms := c.W.Prog.MethodSets.MethodSet(t)
	sel := ms.Lookup(nil, name)
	if sel == nil && e.pkg != nil {
		sel = ms.Lookup(e.pkg, name)
	}
	if sel == nil {
		// try pointer/value adjustments
		if p, ok := t.Underlying().(*types.Pointer); ok {
			ms = c.W.Prog.MethodSets.MethodSet(p.Elem())
			sel = ms.Lookup(e.pkg, name)
			if sel != nil {
				recv = e.deref(recv)
			}
		}
	}
	if sel == nil {
		specErr("no method %s on %s", name, t)
	}
	fn := c.W.Prog.MethodValue(sel)
	if fn == nil {
		specErr("method %s has no body", name)
	}
	return e.callGo(fn, recv, args)
}

// evalAddr evaluates an addressable expression to its location.
func (e *Env) evalAddr(x *Expr) *Addr {
	switch x.Kind {
	case "paren":
		return e.evalAddr(x.X)
	case "un":
		if x.Op == "*" {
			p := e.eval(x.X)
			if p.Ptr == nil {
				specErr("dereference of non-pointer")
			}
			return p.Ptr
		}
	case "index":
		base := e.eval(x.X)
		i := e.toIdx(e.eval(x.Y))
		if isPtrType(base.Typ) {
			base = e.deref(base)
		}
		if sl, ok := base.Typ.Underlying().(*types.Slice); ok {
			l := base.leaves()
			et := sl.Elem()
			return &Addr{Root: l[0], RType: et, Elem: true, EIdx: Add(l[1], i), Lo: 0, Hi: len(leafSorts(et)), Typ: et}
		}
		specErr("address of element of %s", base.Typ)
	case "sel":
		var basePtr *Addr
		bv := func() *Val {
			defer func() { recover() }()
			return e.eval(x.X)
		}()
		if bv != nil && isPtrType(bv.Typ) && bv.Ptr != nil {
			basePtr = bv.Ptr
		} else {
			basePtr = e.evalAddr(x.X)
		}
		stt, ok := basePtr.Typ.Underlying().(*types.Struct)
		if !ok {
			specErr("address of field of non-struct %s", basePtr.Typ)
		}
		path, _ := findField(stt, x.Name)
		if path == nil {
			specErr("no field %s", x.Name)
		}
		a := *basePtr
		cur := stt
		for _, fi := range path {
			lo, hi := fieldRange(cur, fi)
			a.Hi = a.Lo + hi
			a.Lo = a.Lo + lo
			a.Typ = cur.Field(fi).Type()
			if ns, ok := a.Typ.Underlying().(*types.Struct); ok {
				cur = ns
			}
		}
		return &a
	}
	specErr("expression is not addressable")
	return nil
}

// reindexBound re-parameterises "forall k :: ... A[off+k] ..." as a
// quantifier over the absolute index j = off+k, so that solvers can
// instantiate it by matching select(A, j) (no arithmetic in the trigger).
func reindexBound(k *Term, body *Term) (*Term, *Term, *Term) {
	if k.S != BV(64) {
		return nil, nil, nil
	}
	var off *Term
	var arr *Term
	direct := false
	seen := map[*Term]bool{}
	var find func(t *Term)
	find = func(t *Term) {
		if seen[t] || !t.hasB || off != nil || direct {
			return
		}
		seen[t] = true
		if t.Op == "select" {
			ix := t.Args[1]
			if ix == k {
				direct = true
				return
			}
			if ix.Op == "bvadd" && !t.Args[0].hasB {
				if ix.Args[1] == k && !ix.Args[0].hasB {
					off, arr = ix.Args[0], t.Args[0]
					return
				}
				if ix.Args[0] == k && !ix.Args[1].hasB {
					off, arr = ix.Args[1], t.Args[0]
					return
				}
			}
		}
		for _, a := range t.Args {
			find(a)
		}
	}
	find(body)
	if off == nil || direct {
		return nil, nil, nil
	}
	j := BoundVar("j", BV(64))
	nbody := Subst(body, map[*Term]*Term{k: Sub(j, off)})
	if !patternSafe(arr) {
		return j, nbody, nil
	}
	return j, nbody, Select(arr, j)
}

// callSpecOpaque: inside a quantifier, a specification function applied to
// quantified arguments is kept as an uninterpreted symbol F(args) together
// with its defining axiom "forall x :: F(x) == body(x)" (trigger F(x)), so
// that the bit-level definition is only unfolded at the instances a proof
// needs. Returns nil when the call has no quantified argument (then the
// body is inlined as usual).
func (e *Env) callSpecOpaque(fn *ssa.Function, argExprs []*Expr) *Val {
	c := e.c
	params := fn.Signature.Params()
	if params.Len() != len(argExprs) || fn.Signature.Results().Len() != 1 {
		return nil
	}
	args := make([]*Val, len(argExprs))
	anyB := false
	for i, ax := range argExprs {
		v := e.eval(ax)
		pt := params.At(i).Type()
		if v.Typ == untypedInt {
			if w, _, ok := isIntType(pt); ok {
				v = intVal(pt, convW(v.T(), w))
			}
		}
		if v.L == nil {
			return nil
		}
		for _, l := range v.L {
			if l.hasB {
				anyB = true
			}
			if l.S.Kind == SArray {
				return nil
			}
		}
		args[i] = v
	}
	if !anyB {
		return nil
	}
	rt := fn.Signature.Results().At(0).Type()
	rs := leafSorts(rt)
	for _, srt := range rs {
		if srt.Kind == SArray {
			return nil
		}
	}
	name := "def!" + sanitize(fullName(fn))
	if c.defAxioms == nil {
		c.defAxioms = map[*ssa.Function]bool{}
	}
	if !c.defAxioms[fn] {
		c.defAxioms[fn] = true
		// definitional axiom over fresh bound variables
		var bvs []*Term
		var bargs []*Val
		for i := 0; i < params.Len(); i++ {
			pt := params.At(i).Type()
			ss := leafSorts(pt)
			l := make([]*Term, len(ss))
			for j, srt := range ss {
				b := BoundVar(fmt.Sprintf("x%d_%d", i, j), srt)
				l[j] = b
				bvs = append(bvs, b)
			}
			bargs = append(bargs, mkVal(pt, l))
		}
		st := e.st.clone()
		c.quiet++
		nAssume := len(c.assumes)
		saveVia := c.viaStack
		res := c.inlineCall(st, fn, nil, bargs, token.NoPos)
		c.quiet--
		c.viaStack = saveVia
		c.assumes = c.assumes[:nAssume]
		if res == nil || res.L == nil {
			specErr("specification function %s does not return a flat value", fn.Name())
		}
		var eqs []*Term
		var pat []*Term
		for j := range rs {
			app := UF(fmt.Sprintf("%s#%d", name, j), rs[j], bvs...)
			eqs = append(eqs, Eq(app, res.L[j]))
			pat = append(pat, app)
		}
		c.assumes = append(c.assumes, Forall(bvs, And(eqs...), pat))
	}
	var in []*Term
	for _, a := range args {
		in = append(in, a.L...)
	}
	out := make([]*Term, len(rs))
	for j := range rs {
		out[j] = UF(fmt.Sprintf("%s#%d", name, j), rs[j], in...)
	}
	return mkVal(rt, out)
}

// patternSafe: triggers may not contain boolean connectives or ite.
func patternSafe(t *Term) bool {
	seen := map[*Term]bool{}
	var rec func(x *Term) bool
	rec = func(x *Term) bool {
		if seen[x] {
			return true
		}
		seen[x] = true
		switch x.Op {
		case "ite", "not", "and", "or", "=", "bvult", "bvule", "bvslt", "bvsle", "forall", "exists", "lambda":
			return false
		}
		if x.S == BoolSort && x.Op != "var" && x.Op != "const" {
			return false
		}
		for _, a := range x.Args {
			if !rec(a) {
				return false
			}
		}
		return true
	}
	return rec(t)
}

// evalGhostSum: "ghostsum G(i int) T = term(i)" in a function contract
// introduces the prefix sum G(0) = 0, G(n) = G(n-1) + term(n-1) for n > 0
// (G is arbitrary for negative n), where term is evaluated in the function's
// ENTRY state, so that G is one fixed mathematical function during the whole
// verification of that function. Such a function exists for every term (the
// recurrence is primitive recursive, arithmetic is modulo 2^width), so
// introducing it is a conservative definitional extension. G is kept as an
// uninterpreted symbol; every mention G(a) in a specification adds the one
// instance of the recurrence at a (quantifier-free: no induction is asked of
// the solver, the loop invariant carries it).
func (e *Env) evalGhostSum(gs *PureFunc, args []*Expr) *Val {
	c := e.c
	if len(args) != 1 {
		specErr("ghost sum %s takes one argument", gs.Name)
	}
	if c.ghostEnv == nil {
		specErr("ghost sum %s is not available here", gs.Name)
	}
	gpkg := c.ghostEnv.pkg
	rt := c.W.resolveType(gs.Res, gpkg)
	rw, _, ok := isIntType(rt)
	if !ok {
		specErr("ghost sum %s must have an integer type", gs.Name)
	}
	pt := c.W.resolveType(gs.Params[0].T, gpkg)
	pw, _, ok := isIntType(pt)
	if !ok || pw != 64 {
		specErr("ghost sum %s: the index must be an int", gs.Name)
	}
	av := e.eval(args[0])
	a := av.T()
	if av.Typ == untypedInt {
		a = convW(a, 64)
	}
	if a.S != BV(64) {
		specErr("ghost sum %s: the index must be an int", gs.Name)
	}
	if a.hasB {
		specErr("ghost sum %s cannot be applied to a quantified variable", gs.Name)
	}
	name := "ghostsum!" + sanitize(c.ghostFC.Key) + "!" + gs.Name
	app := func(x *Term) *Term { return UF(name, BV(rw), x) }
	if c.ghostInst == nil {
		c.ghostInst = map[*Term]bool{}
	}
	key := app(a)
	if !c.ghostInst[key] {
		c.ghostInst[key] = true
		prev := Sub(a, Const(64, 1))
		ne := c.ghostEnv.child()
		ne.lookup = nil
		ne.bound = nil
		ne.old = nil
		ne.oldEnv = nil
		ne.vars[gs.Params[0].Name] = intVal(pt, prev)
		tv := ne.eval(gs.Body)
		t := tv.T()
		if tv.Typ == untypedInt {
			t = convW(t, rw)
		}
		if t.S != BV(rw) {
			specErr("ghost sum %s: the term has type %s, want %s", gs.Name, tv.Typ, rt)
		}
		zero := Const(64, 0)
		c.assumes = append(c.assumes,
			Implies(Eq(a, zero), Eq(app(a), Const(rw, 0))),
			Implies(SLt(zero, a), Eq(app(a), Add(app(prev), t))))
	}
	return intVal(rt, key)
}
