package main

// Replay: turn a solver model of a failed safety obligation into an
// in-package Go test (injected with -overlay, nothing is written to /repo),
// run the real function and observe the predicted panic.

import (
	"context"
	"encoding/json"
	"fmt"
	"go/types"
	"os"
	"os/exec"
	"path/filepath"
	"sort"
	"strconv"
	"strings"
	"time"

	"golang.org/x/tools/go/ssa"
)

type ReplayResult struct {
	Attempted bool   `json:"attempted"`
	Confirmed bool   `json:"confirmed"`
	Note      string `json:"note,omitempty"`
	Test      string `json:"test_source,omitempty"`
	Output    string `json:"output,omitempty"`
	Cmd       string `json:"cmd,omitempty"`
}

const replayElems = 48

// declareInputs registers, for replay, the scalar terms that describe the
// entry state reachable from the parameters (one level of pointers).
func (c *Ctx) declareInputs(st *State, fn *ssa.Function, args []*Val) {
	add := func(name string, t *Term) {
		if t.S.Kind == SArray {
			return
		}
		c.inputs = append(c.inputs, &InputVar{Name: name, Term: t})
	}
	var addVal func(prefix string, t types.Type, l []*Term, depth int)
	addVal = func(prefix string, t types.Type, l []*Term, depth int) {
		switch u := t.Underlying().(type) {
		case *types.Basic:
			for j, x := range l {
				add(fmt.Sprintf("%s#%d", prefix, j), x)
			}
		case *types.Slice:
			for j, x := range l {
				add(fmt.Sprintf("%s#%d", prefix, j), x)
			}
			es := leafSorts(u.Elem())
			if len(es) == 1 && es[0].Kind == SBV {
				k := HKey{Elem: true, T: typeKey(u.Elem()), Leaf: 0}
				h := c.h0var(k, heapSort(true, es[0]))
				for e := 0; e < replayElems; e++ {
					add(fmt.Sprintf("%s[%d]", prefix, e), Select(Select(h, l[0]), Add(l[1], Const(64, uint64(e)))))
				}
			}
		case *types.Pointer:
			add(prefix+"#0", l[0])
			if depth >= 1 {
				return
			}
			if stt, ok := u.Elem().Underlying().(*types.Struct); ok {
				ss := leafSorts(u.Elem())
				lo := 0
				for i := 0; i < stt.NumFields(); i++ {
					ft := stt.Field(i).Type()
					n := len(leafSorts(ft))
					fl := make([]*Term, n)
					okf := true
					for j := 0; j < n; j++ {
						if ss[lo+j].Kind == SArray {
							okf = false
							break
						}
						k := HKey{T: typeKey(u.Elem()), Leaf: lo + j}
						fl[j] = Select(c.h0var(k, heapSort(false, ss[lo+j])), l[0])
					}
					if okf {
						switch ft.Underlying().(type) {
						case *types.Basic, *types.Slice:
							addVal(prefix+"."+stt.Field(i).Name(), ft, fl, depth+1)
						}
					}
					lo += n
				}
			}
		case *types.Struct:
			lo := 0
			for i := 0; i < u.NumFields(); i++ {
				ft := u.Field(i).Type()
				n := len(leafSorts(ft))
				switch ft.Underlying().(type) {
				case *types.Basic, *types.Slice:
					arr := false
					for _, x := range l[lo : lo+n] {
						if x.S.Kind == SArray {
							arr = true
						}
					}
					if !arr {
						addVal(prefix+"."+u.Field(i).Name(), ft, l[lo:lo+n], depth+1)
					}
				}
				lo += n
			}
		default:
			for j, x := range l {
				add(fmt.Sprintf("%s#%d", prefix, j), x)
			}
		}
	}
	for i, p := range fn.Params {
		if args[i].L == nil {
			continue
		}
		name := p.Name()
		if name == "" || name == "_" {
			name = fmt.Sprintf("arg%d", i)
		}
		addVal(name, p.Type(), args[i].L, 0)
	}
}

func modelUint(m map[string]string, k string) (uint64, bool) {
	s, ok := m[k]
	if !ok {
		return 0, false
	}
	s = strings.TrimSpace(s)
	if s == "true" {
		return 1, true
	}
	if s == "false" {
		return 0, true
	}
	if strings.HasPrefix(s, "#x") {
		v, err := strconv.ParseUint(s[2:], 16, 64)
		return v, err == nil
	}
	if strings.HasPrefix(s, "#b") {
		v, err := strconv.ParseUint(s[2:], 2, 64)
		return v, err == nil
	}
	if strings.HasPrefix(s, "(_ bv") {
		f := strings.Fields(s[5:])
		v, err := strconv.ParseUint(f[0], 10, 64)
		return v, err == nil
	}
	return 0, false
}

type goGen struct {
	m       map[string]string
	pkg     *types.Package
	imports map[string]string
	fail    string
	stmts   []string
}

func (g *goGen) typeStr(t types.Type) string {
	return types.TypeString(t, func(p *types.Package) string {
		if p == g.pkg {
			return ""
		}
		g.imports[p.Path()] = p.Name()
		return p.Name()
	})
}

func (g *goGen) basicLit(t types.Type, key string) string {
	v, ok := modelUint(g.m, key)
	if !ok {
		v = 0
	}
	if isBoolType(t) {
		if v != 0 {
			return "true"
		}
		return "false"
	}
	if w, signed, ok := isIntType(t); ok {
		if signed {
			return fmt.Sprintf("%s(%d)", g.typeStr(t), sext64(v, w))
		}
		return fmt.Sprintf("%s(%d)", g.typeStr(t), v)
	}
	if w, ok := isFloatType(t); ok {
		if w == 32 {
			return fmt.Sprintf("%s(math.Float32frombits(%d))", g.typeStr(t), v)
		}
		return fmt.Sprintf("%s(math.Float64frombits(%d))", g.typeStr(t), v)
	}
	if isStringType(t) {
		return `""`
	}
	g.fail = "unsupported basic type " + t.String()
	return "0"
}

func (g *goGen) valueExpr(prefix string, t types.Type, depth int) string {
	switch u := t.Underlying().(type) {
	case *types.Basic:
		if isStringType(t) {
			return `""`
		}
		if _, ok := isFloatType(t); ok {
			g.imports["math"] = "math"
		}
		return g.basicLit(t, prefix+"#0")
	case *types.Slice:
		base, _ := modelUint(g.m, prefix+"#0")
		ln, _ := modelUint(g.m, prefix+"#2")
		cp, _ := modelUint(g.m, prefix+"#3")
		if base == 0 {
			return "nil"
		}
		if int64(ln) < 0 || ln > 1<<22 {
			g.fail = fmt.Sprintf("model needs a slice of %d elements", ln)
			return "nil"
		}
		if cp < ln || cp > 1<<22 {
			cp = ln
		}
		es := leafSorts(u.Elem())
		if len(es) != 1 || es[0].Kind != SBV {
			g.fail = "slice of non-scalar elements"
			return "nil"
		}
		var elems []string
		n := int(ln)
		if n > replayElems {
			n = replayElems
		}
		for e := 0; e < n; e++ {
			v, _ := modelUint(g.m, fmt.Sprintf("%s[%d]", prefix, e))
			if w, signed, ok := isIntType(u.Elem()); ok && signed {
				elems = append(elems, fmt.Sprintf("%d", sext64(v, w)))
			} else {
				elems = append(elems, fmt.Sprintf("%d", v))
			}
		}
		name := fmt.Sprintf("s%d", len(g.stmts))
		g.stmts = append(g.stmts, fmt.Sprintf("%s := make(%s, %d, %d)", name, g.typeStr(t), ln, cp))
		if len(elems) > 0 {
			g.stmts = append(g.stmts, fmt.Sprintf("copy(%s, %s{%s})", name, g.typeStr(t), strings.Join(elems, ", ")))
		}
		return name
	case *types.Pointer:
		ref, _ := modelUint(g.m, prefix+"#0")
		if ref == 0 {
			return "nil"
		}
		if depth >= 1 {
			g.fail = "nested pointer"
			return "nil"
		}
		stt, ok := u.Elem().Underlying().(*types.Struct)
		if !ok {
			name := fmt.Sprintf("p%d", len(g.stmts))
			g.stmts = append(g.stmts, fmt.Sprintf("%s := new(%s)", name, g.typeStr(u.Elem())))
			return name
		}
		name := fmt.Sprintf("p%d", len(g.stmts))
		g.stmts = append(g.stmts, fmt.Sprintf("%s := new(%s)", name, g.typeStr(u.Elem())))
		for i := 0; i < stt.NumFields(); i++ {
			f := stt.Field(i)
			switch f.Type().Underlying().(type) {
			case *types.Basic, *types.Slice:
				if _, has := g.m[prefix+"."+f.Name()+"#0"]; !has {
					continue
				}
				ex := g.valueExpr(prefix+"."+f.Name(), f.Type(), depth+1)
				g.stmts = append(g.stmts, fmt.Sprintf("%s.%s = %s", name, f.Name(), ex))
			}
		}
		return name
	case *types.Struct:
		name := fmt.Sprintf("v%d", len(g.stmts))
		g.stmts = append(g.stmts, fmt.Sprintf("var %s %s", name, g.typeStr(t)))
		for i := 0; i < u.NumFields(); i++ {
			f := u.Field(i)
			switch f.Type().Underlying().(type) {
			case *types.Basic, *types.Slice:
				if _, has := g.m[prefix+"."+f.Name()+"#0"]; !has {
					continue
				}
				ex := g.valueExpr(prefix+"."+f.Name(), f.Type(), depth+1)
				g.stmts = append(g.stmts, fmt.Sprintf("%s.%s = %s", name, f.Name(), ex))
			}
		}
		return name
	case *types.Interface:
		tag, ok := modelUint(g.m, prefix+"#0")
		if ok && tag == 0 {
			return "nil"
		}
		g.fail = "interface-typed input (dynamic type and contents cannot be rebuilt from the model)"
		return "nil"
	}
	g.fail = "unsupported parameter type " + t.String()
	return "nil"
}

func safetyKind(kind string) bool {
	switch kind {
	case "index", "slice", "nil", "div", "make", "typeassert", "panic":
		return true
	}
	return false
}

func (w *World) replay(r *FnResult, o *Obligation) *ReplayResult {
	rr := &ReplayResult{}
	if r == nil || r.IsLemma || r.Key == "" {
		rr.Note = "lemma or contract clause: the model is reported, no executable replay is generated"
		return rr
	}
	if !safetyKind(o.Kind) {
		rr.Note = "contract clause (" + o.Kind + "): the model is reported; only run-time panics are replayed automatically"
		return rr
	}
	fn := w.findFunction(r.Key)
	if fn == nil || fn.Pkg == nil {
		rr.Note = "function not found"
		return rr
	}
	model := o.Model
	// prefer a small model: re-solve with bounded slice lengths
	if small := w.smallModel(r, o); small != nil {
		model = small
	}
	if len(model) == 0 {
		rr.Note = "the solver that refuted the obligation produced no model (cvc5 is run without model production) and z3 did not find one in time"
		return rr
	}
	return w.replayModel(r, o, fn, model, rr, true)
}

// baseOblName strips the occurrence suffix of an obligation name.
func baseOblName(n string) string {
	if i := strings.LastIndex(n, "#"); i > 0 {
		if _, err := strconv.Atoi(n[i+1:]); err == nil {
			return n[:i]
		}
	}
	return n
}

// bmcModel searches for a counterexample of the same obligation that starts
// at the function entry, by unrolling every loop k times instead of cutting it.
func (w *World) bmcModel(r *FnResult, o *Obligation) (*FnResult, *Obligation) {
	fc := w.contracts[r.Key]
	if fc == nil {
		return nil, nil
	}
	want := baseOblName(o.Name)
	for _, k := range []int{1, 2, 4} {
		br := w.verifyFunctionMode(fc, nil, "", k)
		if br.Err != "" {
			return nil, nil
		}
		var cands []*Obligation
		for _, bo := range br.Obls {
			if baseOblName(bo.Name) == want && bo.Status == "" {
				cands = append(cands, bo)
			}
		}
		if len(cands) == 0 {
			continue
		}
		keep := br.Obls
		br.Obls = cands
		discharge([]*FnResult{br}, 8, 5*time.Second, 20*time.Second)
		br.Obls = keep
		for _, bo := range cands {
			if bo.Status == "sat" && len(bo.Model) > 0 {
				return br, bo
			}
		}
	}
	return nil, nil
}

func (w *World) replayModel(r *FnResult, o *Obligation, fn *ssa.Function, model map[string]string, rr *ReplayResult, tryBMC bool) *ReplayResult {
	g := &goGen{m: model, pkg: fn.Pkg.Pkg, imports: map[string]string{"fmt": "fmt", "testing": "testing"}}
	var argExprs []string
	for i, p := range fn.Params {
		name := p.Name()
		if name == "" || name == "_" {
			name = fmt.Sprintf("arg%d", i)
		}
		argExprs = append(argExprs, g.valueExpr(name, p.Type(), 0))
	}
	if g.fail != "" {
		rr.Note = "model cannot be materialised: " + g.fail
		return rr
	}
	var call string
	if fn.Signature.Recv() != nil {
		call = fmt.Sprintf("(%s).%s(%s)", argExprs[0], fn.Name(), strings.Join(argExprs[1:], ", "))
		if argExprs[0] == "nil" {
			call = fmt.Sprintf("(%s)(nil).%s(%s)", g.typeStr(fn.Params[0].Type()), fn.Name(), strings.Join(argExprs[1:], ", "))
		}
	} else {
		for i, a := range argExprs {
			if a == "nil" {
				argExprs[i] = fmt.Sprintf("%s(nil)", parenType(g.typeStr(fn.Params[i].Type())))
			}
		}
		call = fmt.Sprintf("%s(%s)", fn.Name(), strings.Join(argExprs, ", "))
	}
	var sb strings.Builder
	fmt.Fprintf(&sb, "package %s\n\nimport (\n", fn.Pkg.Pkg.Name())
	var imps []string
	for p := range g.imports {
		imps = append(imps, p)
	}
	sort.Strings(imps)
	for _, p := range imps {
		fmt.Fprintf(&sb, "\t%q\n", p)
	}
	sb.WriteString(")\n\n")
	fmt.Fprintf(&sb, "// replay of obligation %s\n", o.Name)
	sb.WriteString("func TestGovcReplay(t *testing.T) {\n")
	sb.WriteString("\tdefer func() {\n\t\tif r := recover(); r != nil {\n\t\t\tfmt.Println(\"GOVC-REPLAY panic:\", r)\n\t\t\treturn\n\t\t}\n\t\tfmt.Println(\"GOVC-REPLAY returned\")\n\t}()\n")
	for _, s := range g.stmts {
		sb.WriteString("\t" + s + "\n")
	}
	if fn.Signature.Results().Len() > 0 {
		blanks := make([]string, fn.Signature.Results().Len())
		for i := range blanks {
			blanks[i] = "_"
		}
		fmt.Fprintf(&sb, "\t%s = %s\n", strings.Join(blanks, ", "), call)
	} else {
		fmt.Fprintf(&sb, "\t%s\n", call)
	}
	sb.WriteString("}\n")
	rr.Test = sb.String()
	rr.Attempted = true

	pp := w.PPkgs[fn.Pkg.Pkg.Path()]
	if pp == nil || len(pp.GoFiles) == 0 {
		rr.Note = "package directory unknown"
		return rr
	}
	pdir := filepath.Dir(pp.GoFiles[0])
	out, _ := runReplayTest(pdir, rr.Test)
	rr.Cmd = "cd " + pdir + " && go test -overlay <generated> -vet=off -tags verif -count=1 -v -timeout 60s -run ^TestGovcReplay$ ."
	rr.Output = truncate(string(out), 3000)
	if strings.Contains(string(out), "GOVC-REPLAY panic:") && panicMatches(o.Kind, string(out)) {
		rr.Confirmed = true
	} else if strings.Contains(string(out), "GOVC-REPLAY panic:") {
		rr.Note = "the real function panicked, but not with the kind of run-time error this obligation guards against"
	} else if strings.Contains(string(out), "GOVC-REPLAY returned") {
		rr.Note = "the real function returned normally on the model's inputs (modular counterexample not reproduced)"
		if tryBMC {
			// the model may start inside a cut loop: look for one from the entry
			if br, bo := w.bmcModel(r, o); bo != nil {
				m := bo.Model
				if small := w.smallModel(br, bo); small != nil {
					m = small
				}
				rr2 := w.replayModel(br, bo, fn, m, &ReplayResult{}, false)
				rr2.Note = strings.TrimSpace("counterexample from the function entry found by unrolling the loops (bounded search); " + rr2.Note)
				return rr2
			}
		}
	} else {
		rr.Note = "replay test did not run to completion"
	}
	return rr
}

func parenType(s string) string {
	if strings.HasPrefix(s, "*") || strings.HasPrefix(s, "[") || strings.HasPrefix(s, "func") {
		return "(" + s + ")"
	}
	return s
}

// smallModel re-solves a failed obligation with every input slice length
// bounded, to obtain inputs that can be materialised.
func (w *World) smallModel(r *FnResult, o *Obligation) map[string]string {
	var bounds []*Term
	for _, in := range o.Inputs {
		if strings.HasSuffix(in.Name, "#2") || strings.HasSuffix(in.Name, "#3") {
			if in.Term.S == BV(64) {
				bounds = append(bounds, SLe(in.Term, Const(64, replayElems)))
			}
		}
	}
	if len(bounds) == 0 {
		return nil
	}
	as := relevant(r.Assumes[:o.NAssume], append([]*Term{o.PC, o.Cond}, bounds...))
	as = append(as, o.PC)
	as = append(as, bounds...)
	var gv []*Term
	for _, in := range o.Inputs {
		if in.Term.S.Kind != SArray {
			gv = append(gv, in.Term)
		}
	}
	q := BuildQuery(as, o.Cond, gv)
	res := solveModel(q, 25*time.Second)
	if res.status != "sat" {
		return nil
	}
	return parseModel(res.out, o.Inputs)
}

// runReplayTest injects the test source into the package directory with
// -overlay (nothing is written to /repo) and runs it.
func runReplayTest(pdir, src string) (string, bool) {
	tmp, _ := os.MkdirTemp(tmpDir, "replay")
	file := filepath.Join(tmp, "replay_test.go")
	os.WriteFile(file, []byte(src), 0o644)
	ov := map[string]map[string]string{"Replace": {filepath.Join(pdir, "zz_govc_replay_test.go"): file}}
	ovData, _ := json.Marshal(ov)
	ovFile := filepath.Join(tmp, "overlay.json")
	os.WriteFile(ovFile, ovData, 0o644)
	ctx, cancel := context.WithTimeout(context.Background(), 180*time.Second)
	defer cancel()
	args := []string{"test", "-overlay", ovFile, "-vet=off", "-tags", "verif", "-count=1", "-v", "-timeout", "60s", "-run", "^TestGovcReplay$", "."}
	cmd := exec.CommandContext(ctx, "go", args...)
	cmd.Dir = pdir
	cmd.Env = append(os.Environ(), "GOFLAGS=-mod=mod", "GOPROXY=off")
	out, _ := cmd.CombinedOutput()
	return string(out), strings.Contains(string(out), "GOVC-REPLAY panic:")
}

// panicMatches: the observed run-time error is the one the obligation predicts.
func panicMatches(kind, out string) bool {
	switch kind {
	case "index":
		return strings.Contains(out, "index out of range")
	case "slice":
		return strings.Contains(out, "slice bounds out of range")
	case "nil":
		return strings.Contains(out, "nil pointer dereference") || strings.Contains(out, "invalid memory address")
	case "div":
		return strings.Contains(out, "divide by zero")
	case "make":
		return strings.Contains(out, "makeslice") || strings.Contains(out, "out of range")
	case "typeassert":
		return strings.Contains(out, "interface conversion")
	}
	return true
}
