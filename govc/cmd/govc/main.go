package main

import (
	"encoding/json"
	"flag"
	"fmt"
	"os"
	"runtime/debug"
	"runtime/pprof"
	"sort"
	"strings"
	"time"
)

func main() {
	if pf := os.Getenv("GOVC_PROF"); pf != "" {
		f, _ := os.Create(pf)
		pprof.StartCPUProfile(f)
		defer pprof.StopCPUProfile()
	}
	debug.SetGCPercent(800)
	if len(os.Args) < 2 {
		fmt.Fprintln(os.Stderr, "usage: govc check|dump|baseline|replay ...")
		os.Exit(2)
	}
	switch os.Args[1] {
	case "check":
		os.Exit(cmdCheck(os.Args[2:]))
	case "dump":
		cmdDump(os.Args[2:])
	case "replay":
		os.Exit(cmdReplay(os.Args[2:]))
	case "baseline":
		os.Exit(cmdBaseline(os.Args[2:]))
	case "ssa":
		w, _ := loadWorld("/repo", []string{"./..."}, "verif")
		if fn := w.findFunction(os.Args[2]); fn != nil {
			fn.WriteTo(os.Stdout)
		}
	case "inits":
		setup("/repo")
	default:
		fmt.Fprintln(os.Stderr, "unknown command")
		os.Exit(2)
	}
}

func setup(repo string) *World {
	t0 := time.Now()
	w, err := loadWorld(repo, []string{"./..."}, "verif")
	if err != nil {
		fmt.Fprintln(os.Stderr, "load:", err)
		os.Exit(2)
	}
	if err := w.loadContracts(repo); err != nil {
		fmt.Fprintln(os.Stderr, "contracts:", err)
		os.Exit(2)
	}
	t1 := time.Now()
	notes := w.runInits()
	if os.Getenv("GOVC_VERBOSE") != "" {
		fmt.Fprintf(os.Stderr, "load %.1fs, inits %.1fs\n", t1.Sub(t0).Seconds(), time.Since(t1).Seconds())
		for _, n := range notes {
			fmt.Fprintln(os.Stderr, "  note:", n)
		}
		fmt.Fprintf(os.Stderr, "init facts: %d, size %d\n", len(w.initFacts), termSize(w.initFacts))
		if os.Getenv("GOVC_VERBOSE") == "2" {
			for _, f := range w.initFacts {
				q := BuildQuery(nil, f, nil)
				if len(q) > 600 {
					q = q[:600]
				}
				fmt.Fprintln(os.Stderr, "FACT:", q)
			}
		}
	}
	return w
}

func cmdDump(args []string) {
	fs := flag.NewFlagSet("dump", flag.ExitOnError)
	repo := fs.String("repo", "/repo", "")
	fn := fs.String("fn", "", "contract key suffix")
	tmo := fs.Int("t", 10, "solver timeout (s)")
	fs.Parse(args)
	w := setup(*repo)
	initTmp()
	defer cleanupTmp()
	var keys []string
	for k := range w.contracts {
		if strings.Contains(k, *fn) || *fn == "" {
			keys = append(keys, k)
		}
	}
	sort.Strings(keys)
	fmt.Fprintf(os.Stderr, "%d contracts, %d selected\n", len(w.contracts), len(keys))
	var rs []*FnResult
	for _, k := range keys {
		t := time.Now()
		r := w.verifyFunction(w.contracts[k])
		r.Secs = time.Since(t).Seconds()
		rs = append(rs, r)
		fmt.Fprintf(os.Stderr, "gen %s: %.2fs, %d obligations, %d assumptions, err=%q\n", r.Name, r.Secs, len(r.Obls), len(r.Assumes), r.Err)
	}
	if os.Getenv("GOVC_NOSOLVE") != "" {
		return
	}
	for _, lm := range w.lemmas {
		if *fn == "" || strings.Contains(lm.PkgPath+".lemma."+lm.Name, *fn) {
			t := time.Now()
			r := w.verifyLemma(lm)
			r.Secs = time.Since(t).Seconds()
			rs = append(rs, r)
		}
	}
	if only := os.Getenv("GOVC_ONLY"); only != "" {
		// development aid: solve only the obligations whose name contains the text
		for _, r := range rs {
			var keep []*Obligation
			for _, o := range r.Obls {
				if strings.Contains(o.Name, only) {
					keep = append(keep, o)
				}
			}
			r.Obls = keep
		}
	}
	discharge(rs, 8, 6*time.Second, time.Duration(*tmo)*time.Second)
	for _, r := range rs {
		fmt.Printf("== %s (%.2fs gen) err=%q\n", r.Name, r.Secs, r.Err)
		for k, n := range r.Abstracts {
			fmt.Printf("   abstracted: %s x%d\n", k, n)
		}
		for _, o := range r.Obls {
			fmt.Printf("   %-8s %-7s %5.2fs sz=%d %s\n", o.Status, o.Solver, o.Secs, o.QuerySz, o.Name)
			if o.Status != "sat" && o.Status != "unsat" && os.Getenv("GOVC_VERBOSE") != "" {
				fmt.Printf("        raw: %s\n", truncate(o.RawOut, 600))
			}
			if o.Status == "sat" {
				var ks []string
				for k := range o.Model {
					ks = append(ks, k)
				}
				sort.Strings(ks)
				for _, k := range ks {
					fmt.Printf("        %s = %s\n", k, o.Model[k])
				}
			}
		}
	}
}

// cmdReplay re-runs the generated test of a replay file against /repo.
func cmdReplay(args []string) int {
	if len(args) < 1 {
		fmt.Fprintln(os.Stderr, "usage: govc replay <replay.json>")
		return 2
	}
	data, err := os.ReadFile(args[0])
	if err != nil {
		fmt.Fprintln(os.Stderr, err)
		return 2
	}
	var rep map[string]interface{}
	if err := json.Unmarshal(data, &rep); err != nil {
		fmt.Fprintln(os.Stderr, err)
		return 2
	}
	fmt.Printf("obligation: %v\nproperty: %v\nreason: %v\nsolver: %v (%v)\n", rep["obligation"], rep["property"], rep["reason"], rep["solver"], rep["solver_status"])
	rr, _ := rep["replay"].(map[string]interface{})
	if rr == nil || rr["test_source"] == nil || rr["test_source"] == "" {
		fmt.Println("no executable replay was generated for this obligation; the model (if any) is in the file")
		if m, ok := rep["model"]; ok {
			fmt.Printf("model: %v\n", m)
		}
		return 1
	}
	src, _ := rr["test_source"].(string)
	cmdline, _ := rr["cmd"].(string)
	// cmd has the form "cd <dir> && go test ..."
	dir := ""
	if i := strings.Index(cmdline, " && "); i > 3 {
		dir = strings.TrimPrefix(cmdline[:i], "cd ")
	}
	if dir == "" {
		fmt.Println("replay file has no package directory")
		return 2
	}
	initTmp()
	defer cleanupTmp()
	out, confirmed := runReplayTest(dir, src)
	fmt.Println(out)
	if confirmed {
		fmt.Println("REPLAY: the real code panics on the model's inputs (violation reproduced)")
		return 1
	}
	fmt.Println("REPLAY: not reproduced")
	return 0
}
