package main

import (
	"fmt"
	"strings"
	"sort"
	"time"
	"go/token"
	"go/types"

	"golang.org/x/tools/go/ssa"
)

type Obligation struct {
	Name    string
	Kind    string
	Fn      string // function under verification
	Pos     token.Position
	NAssume int
	PC      *Term
	Cond    *Term
	Props   []string
	Inputs  []*InputVar

	// results
	Status   string // "unsat" (discharged), "sat", "unknown", "timeout", "trivial"
	Solver   string
	Secs     float64
	Model    map[string]string
	RawOut   string
	QuerySz  int
	HasQuant bool
	caseAssumes []*Term // assumption list of the enumerated case this obligation belongs to
}

type InputVar struct {
	Name string
	Term *Term
}

type deferred struct {
	call *ssa.CallCommon
	args []*Val
	fn   *Val
	pc   *Term
}

type State struct {
	pc     *Term
	cells  map[*Cell]*Val
	heap   map[HKey]*Term
	clk    *Term
	regs   map[ssa.Value]*Val
	defers []deferred
	ghost  map[string]*Val
}

func (s *State) clone() *State {
	n := &State{pc: s.pc, clk: s.clk}
	n.cells = make(map[*Cell]*Val, len(s.cells))
	for k, v := range s.cells {
		n.cells[k] = v
	}
	n.heap = make(map[HKey]*Term, len(s.heap))
	for k, v := range s.heap {
		n.heap[k] = v
	}
	n.regs = make(map[ssa.Value]*Val, len(s.regs))
	for k, v := range s.regs {
		n.regs[k] = v
	}
	n.defers = append([]deferred(nil), s.defers...)
	if s.ghost != nil {
		n.ghost = make(map[string]*Val, len(s.ghost))
		for k, v := range s.ghost {
			n.ghost[k] = v
		}
	}
	return n
}

// Ctx is the verification context of one function (or lemma).
type Ctx struct {
	W         *World
	FnName    string
	Props     []string
	assumes   []*Term
	obls      []*Obligation
	h0        map[HKey]*Term
	inputs    []*InputVar
	stack     []*ssa.Function
	unrolled  int
	abstracts map[string]int
	notes     []string
	oblCount  map[string]int
	quiet     int // >0: do not record obligations (inside separately verified callees)
	noSafety  bool // safety obligations of the function under verification are assumed (nosafety clause)
	viaStack  []string
	clk0      *Term
	curFrame  *frame
	knownTrue map[*Term]bool // facts fixed by the current case of a `cases` split
	feasChecks int
	inlineList  []string
	inlineDepth int
	bmc       int // >0: bounded unrolling mode (counterexample search only)
	caseTag   string
	steps     int
	splitting bool
	curExecFrame *frame
	defAxioms map[*ssa.Function]bool
	ghostFC   *FuncContract  // the function under verification (its ghost sums are visible in its clauses)
	ghostEnv  *Env           // parameters in the entry state
	ghostInst map[*Term]bool // recurrence instances already assumed
	started   time.Time
	trivial   int
	globals   map[*Cell]*Val
	pendingGlobalInv []*Val
}

func (c *Ctx) assume(pc, t *Term) {
	t = Implies(pc, t)
	if t.IsTrue() {
		return
	}
	c.assumes = append(c.assumes, t)
}

func (c *Ctx) note(format string, a ...interface{}) {
	s := fmt.Sprintf(format, a...)
	for _, n := range c.notes {
		if n == s {
			return
		}
	}
	c.notes = append(c.notes, s)
}

func (c *Ctx) abstracted(what string) {
	if c.abstracts == nil {
		c.abstracts = map[string]int{}
	}
	c.abstracts[what]++
}

// oblige records an obligation "pc ==> cond" and afterwards assumes it.
func (c *Ctx) oblige(st *State, kind, text string, pos token.Pos, cond *Term) {
	pc := st.pc
	if c.quiet > 0 {
		c.assume(pc, cond)
		return
	}
	if c.noSafety && (!contractKind(kind) || strings.HasPrefix(kind, "pre(")) && kind != "vacuity" {
		c.assume(pc, cond)
		return
	}
	if contractKind(kind) && !c.splitting {
		if parts := splitGoal(cond, 0); len(parts) > 1 && len(parts) <= 64 {
			// one query per conjunct; each sees the earlier conjuncts as facts
			c.splitting = true
			for i, p := range parts {
				c.oblige(st, kind, fmt.Sprintf("%s[%d/%d]", text, i+1, len(parts)), pos, p)
			}
			c.splitting = false
			return
		}
	}
	base := c.FnName
	if len(c.viaStack) > 0 {
		base += ":in(" + c.viaStack[len(c.viaStack)-1] + ")"
	}
	name := base + ":" + kind + ":" + text + c.caseTag
	if c.oblCount == nil {
		c.oblCount = map[string]int{}
	}
	n := c.oblCount[name]
	c.oblCount[name] = n + 1
	if n > 0 {
		name = fmt.Sprintf("%s#%d", name, n)
	}
	goal := skolemizeGoal(cond, 0)
	o := &Obligation{Name: name, Kind: kind, Fn: c.FnName, NAssume: len(c.assumes), PC: pc, Cond: goal, Props: c.Props, Inputs: c.inputs}
	if pos.IsValid() {
		o.Pos = c.W.Fset.Position(pos)
	}
	if Implies(pc, cond).IsTrue() {
		c.trivial++
		c.oblCount[name] = n // do not consume an occurrence number
		return
	}
	c.obls = append(c.obls, o)
	c.assume(pc, cond)
}

func (c *Ctx) h0var(k HKey, s *Sort) *Term {
	if t, ok := c.h0[k]; ok {
		return t
	}
	keySorts[k] = s
	t := Var("H0!"+sanitize(k.String()), s)
	// overlay objects created by package initialisers
	if c.W != nil && !c.W.initMode {
		if it, ok := c.W.initHeap[k]; ok {
			t = it
		}
	}
	c.h0[k] = t
	return t
}

func (c *Ctx) heapGet(st *State, k HKey, s *Sort) *Term {
	if t, ok := st.heap[k]; ok {
		return t
	}
	return c.h0var(k, s)
}

func (c *Ctx) newRef(st *State) *Term {
	r := st.clk
	st.clk = Add(st.clk, Const(32, 1))
	// the allocation clock never wraps (2^31 objects)
	c.assume(st.pc, ULt(r, Const(32, 0x7fffffff)))
	return r
}

// typeInvariant returns facts that hold for every Go value of type t.
func (c *Ctx) typeInvariant(st *State, v *Val) *Term {
	if v == nil || v == poison || v.L == nil {
		return True
	}
	var out []*Term
	var rec func(t types.Type, l []*Term, depth int)
	rec = func(t types.Type, l []*Term, depth int) {
		switch u := t.Underlying().(type) {
		case *types.Slice:
			base, off, ln, cp := l[0], l[1], l[2], l[3]
			zero := Const(64, 0)
			big := Const(64, 1<<48)
			out = append(out, SLe(zero, ln), SLe(ln, cp), SLe(cp, big), SLe(zero, off), SLe(off, big))
			out = append(out, Implies(Eq(base, Const(32, 0)), And(Eq(cp, zero), Eq(off, zero))))
			out = append(out, ULt(base, st.clk))
		case *types.Basic:
			if isStringType(t) {
				out = append(out, SLe(Const(64, 0), l[1]), SLe(l[1], Const(64, 1<<48)))
			}
		case *types.Pointer, *types.Map, *types.Chan, *types.Signature:
			out = append(out, ULt(l[0], st.clk))
		case *types.Interface:
			out = append(out, ULt(l[1], st.clk))
			out = append(out, Implies(Eq(l[0], Const(32, 0)), Eq(l[1], Const(32, 0))))
		case *types.Struct:
			lo := 0
			for i := 0; i < u.NumFields(); i++ {
				n := len(leafSorts(u.Field(i).Type()))
				rec(u.Field(i).Type(), l[lo:lo+n], depth+1)
				lo += n
			}
		case *types.Tuple:
			lo := 0
			for i := 0; i < u.Len(); i++ {
				n := len(leafSorts(u.At(i).Type()))
				rec(u.At(i).Type(), l[lo:lo+n], depth+1)
				lo += n
			}
		case *types.Array:
			// element invariants would need quantifiers; elements are
			// constrained when they are read instead.
		}
	}
	rec(v.Typ, v.L, 0)
	return And(out...)
}

// ---- memory access ----

func (c *Ctx) loadAddr(st *State, a *Addr) *Val {
	ss := leafSorts(a.RType)
	n := a.Hi - a.Lo
	l := make([]*Term, n)
	if a.Cell != nil {
		cv, ok := st.cells[a.Cell]
		if !ok && a.Cell.Global != nil {
			cv, ok = c.globalInitial(a.Cell), true
		}
		if !ok {
			unsup("load from cell %s not in scope", a.Cell.Name)
		}
		if a.Lo == 0 && a.Hi == len(ss) && len(a.Idx) == 0 {
			return cv
		}
		if cv.L == nil {
			unsup("partial load from non-flat cell %s", a.Cell.Name)
		}
		for j := 0; j < n; j++ {
			l[j] = selPath(cv.L[a.Lo+j], a.Idx)
		}
		v := mkVal(a.Typ, l)
		return v
	}
	tk := typeKey(a.RType)
	for j := 0; j < n; j++ {
		k := HKey{Elem: a.Elem, T: tk, Leaf: a.Lo + j}
		h := c.heapGet(st, k, heapSort(a.Elem, ss[a.Lo+j]))
		t := Select(h, a.Root)
		if a.Elem && a.EIdx != nil {
			t = Select(t, a.EIdx)
		}
		l[j] = selPath(t, a.Idx)
	}
	v := mkVal(a.Typ, l)
	if a.Elem && a.EIdx == nil {
		// whole region viewed as an array value
		v = &Val{Typ: a.Typ, L: l}
	}
	if inv := c.typeInvariant(st, v); !inv.IsTrue() {
		c.assume(st.pc, inv)
	}
	return v
}

func (c *Ctx) storeAddr(st *State, a *Addr, v *Val) {
	ss := leafSorts(a.RType)
	n := a.Hi - a.Lo
	if a.Cell != nil {
		if a.Lo == 0 && a.Hi == len(ss) && len(a.Idx) == 0 {
			st.cells[a.Cell] = v
			return
		}
		cv, ok := st.cells[a.Cell]
		if !ok && a.Cell.Global != nil {
			cv, ok = c.globalInitial(a.Cell), true
		}
		if !ok {
			unsup("store to cell %s not in scope", a.Cell.Name)
		}
		if cv.L == nil {
			unsup("partial store to non-flat cell %s", a.Cell.Name)
		}
		vl := v.leaves()
		nl := append([]*Term(nil), cv.L...)
		for j := 0; j < n; j++ {
			nl[a.Lo+j] = storePath(cv.L[a.Lo+j], a.Idx, vl[j])
		}
		st.cells[a.Cell] = mkVal(cv.Typ, nl)
		return
	}
	vl := v.leaves()
	if len(vl) != n {
		panic(fmt.Sprintf("storeAddr: %d leaves into %d (%s <- %s)", len(vl), n, a.Typ, v.Typ))
	}
	tk := typeKey(a.RType)
	for j := 0; j < n; j++ {
		k := HKey{Elem: a.Elem, T: tk, Leaf: a.Lo + j}
		h := c.heapGet(st, k, heapSort(a.Elem, ss[a.Lo+j]))
		var nv *Term
		if a.Elem {
			region := Select(h, a.Root)
			if a.EIdx != nil {
				cur := Select(region, a.EIdx)
				nv = Store(region, a.EIdx, storePath(cur, a.Idx, vl[j]))
			} else {
				nv = storePath(region, a.Idx, vl[j])
			}
		} else {
			cur := Select(h, a.Root)
			nv = storePath(cur, a.Idx, vl[j])
		}
		st.heap[k] = Store(h, a.Root, nv)
	}
}

// nonNil yields the condition that dereferencing a is legal.
func addrNonNil(a *Addr) *Term {
	if a.Cell != nil || (a.Elem && a.EIdx != nil) {
		return True // element pointers come from a successful bounds check
	}
	return Neq(a.Root, Const(32, 0))
}

// ---- merging ----

type edgeState struct {
	from *ssa.BasicBlock
	st   *State
}

func (c *Ctx) mergeStates(es []edgeState) *State {
	var live []edgeState
	for _, e := range es {
		if !e.st.pc.IsFalse() {
			live = append(live, e)
		}
	}
	if len(live) == 0 {
		return nil
	}
	if len(live) == 1 {
		return live[0].st
	}
	res := live[len(live)-1].st.clone()
	for i := len(live) - 2; i >= 0; i-- {
		s := live[i].st
		cnd := s.pc
		// cells
		// all iterations in a fixed order: the order in which terms are built
		// decides their names in the query, and the solvers are sensitive to it
		for _, k := range sortedCells(s.cells) {
			v := s.cells[k]
			if o, ok := res.cells[k]; ok {
				res.cells[k] = iteVal(cnd, v, o)
			} else if k.Global != nil {
				res.cells[k] = iteVal(cnd, v, c.globalInitial(k))
			} else {
				res.cells[k] = v
			}
		}
		for _, k := range sortedCells(res.cells) {
			o := res.cells[k]
			if _, ok := s.cells[k]; !ok && k.Global != nil {
				res.cells[k] = iteVal(cnd, c.globalInitial(k), o)
			}
		}
		for _, k := range sortedRegs(s.regs) {
			v := s.regs[k]
			if o, ok := res.regs[k]; ok {
				res.regs[k] = iteVal(cnd, v, o)
			} else {
				res.regs[k] = v
			}
		}
		keyset := map[HKey]bool{}
		for k := range s.heap {
			keyset[k] = true
		}
		for k := range res.heap {
			keyset[k] = true
		}
		keys := make([]HKey, 0, len(keyset))
		for k := range keyset {
			keys = append(keys, k)
		}
		sort.Slice(keys, func(i, j int) bool { return keys[i].String() < keys[j].String() })
		for _, k := range keys {
			a, aok := s.heap[k]
			b, bok := res.heap[k]
			if !aok {
				a = c.h0var(k, b.S)
			}
			if !bok {
				b = c.h0var(k, a.S)
			}
			res.heap[k] = Ite(cnd, a, b)
		}
		res.clk = Ite(cnd, s.clk, res.clk)
		if s.ghost != nil || res.ghost != nil {
			if res.ghost == nil {
				res.ghost = map[string]*Val{}
			}
			for k, v := range s.ghost {
				if o, ok := res.ghost[k]; ok {
					res.ghost[k] = iteVal(cnd, v, o)
				} else {
					res.ghost[k] = v
				}
			}
		}
		if len(s.defers) != len(res.defers) {
			unsup("conditionally registered defer")
		}
		res.pc = Or(s.pc, res.pc)
	}
	return res
}

// obligeCase records "pc && hyp ==> cond" without assuming it afterwards
// (the cases of a split are independent).
func (c *Ctx) obligeCase(st *State, kind, text string, hyp, cond *Term) {
	if parts := splitGoal(cond, 0); len(parts) > 1 && len(parts) <= 64 {
		for i, p := range parts {
			c.obligeCase1(st, kind, fmt.Sprintf("%s[%d/%d]", text, i+1, len(parts)), hyp, p)
		}
		return
	}
	c.obligeCase1(st, kind, text, hyp, cond)
}

// splitGoal splits a goal into independent conjuncts (A ==> (B && C) becomes
// A ==> B and A ==> C), so that each is its own small query.
func splitGoal(t *Term, depth int) []*Term {
	if depth > 6 {
		return []*Term{t}
	}
	if t.Op == "and" {
		var out []*Term
		for _, a := range t.Args {
			out = append(out, splitGoal(a, depth+1)...)
		}
		return out
	}
	if t.Op == "or" {
		idx := -1
		for i, a := range t.Args {
			if a.Op == "and" {
				if idx >= 0 {
					return []*Term{t}
				}
				idx = i
			}
		}
		if idx >= 0 {
			var out []*Term
			for _, p := range splitGoal(t.Args[idx], depth+1) {
				args := append([]*Term(nil), t.Args...)
				args[idx] = p
				out = append(out, Or(args...))
			}
			return out
		}
	}
	return []*Term{t}
}

func (c *Ctx) obligeCase1(st *State, kind, text string, hyp, cond *Term) {
	n := len(c.assumes)
	sub := &State{pc: And(st.pc, hyp)}
	if c.curFrame != nil && c.curFrame.fn != nil {
		c.oblige(sub, kind, text, c.curFrame.fn.Pos(), cond)
	} else {
		c.oblige(sub, kind, text, 0, cond)
	}
	c.assumes = c.assumes[:n]
}

// skolemizeGoal replaces the universally quantified variables of a goal
// (forall at the top, or in positive position under or/and) by fresh
// constants: proving the instance for arbitrary constants is the same
// obligation, and it keeps the query quantifier-free when the hypotheses are.
func skolemizeGoal(t *Term, depth int) *Term {
	if depth > 8 {
		return t
	}
	switch t.Op {
	case "forall":
		m := map[*Term]*Term{}
		for _, b := range t.Bound {
			m[b] = Fresh("sk."+b.Name, b.S)
		}
		return skolemizeGoal(Subst(t.Args[0], m), depth+1)
	case "or":
		args := make([]*Term, len(t.Args))
		ch := false
		for i, a := range t.Args {
			args[i] = skolemizeGoal(a, depth+1)
			if args[i] != a {
				ch = true
			}
		}
		if ch {
			return Or(args...)
		}
	case "and":
		args := make([]*Term, len(t.Args))
		ch := false
		for i, a := range t.Args {
			args[i] = skolemizeGoal(a, depth+1)
			if args[i] != a {
				ch = true
			}
		}
		if ch {
			return And(args...)
		}
	}
	return t
}

func sortedCells(m map[*Cell]*Val) []*Cell {
	ks := make([]*Cell, 0, len(m))
	for k := range m {
		ks = append(ks, k)
	}
	sort.Slice(ks, func(i, j int) bool { return ks[i].id < ks[j].id })
	return ks
}

func sortedRegs(m map[ssa.Value]*Val) []ssa.Value {
	ks := make([]ssa.Value, 0, len(m))
	for k := range m {
		ks = append(ks, k)
	}
	sort.Slice(ks, func(i, j int) bool {
		a, b := ks[i], ks[j]
		if a.Pos() != b.Pos() {
			return a.Pos() < b.Pos()
		}
		if a.Name() != b.Name() {
			return a.Name() < b.Name()
		}
		pa, pb := "", ""
		if a.Parent() != nil {
			pa = a.Parent().String()
		}
		if b.Parent() != nil {
			pb = b.Parent().String()
		}
		return pa < pb
	})
	return ks
}
