package main

import (
	"fmt"
	"go/ast"
	"go/constant"
	"go/token"
	"go/types"
	"os"
	"sort"
	"strings"
	"time"

	"golang.org/x/tools/go/ssa"
)

// ---- loop forest ----

type loopInfo struct {
	header   *ssa.BasicBlock
	body     map[*ssa.BasicBlock]bool
	children []*loopInfo
	parent   *loopInfo
	ord      int // ordinal in source order
	pos      token.Pos
}

type node struct {
	block *ssa.BasicBlock
	loop  *loopInfo
}

type fnInfo struct {
	fn    *ssa.Function
	rpo   map[*ssa.BasicBlock]int
	loops []*loopInfo // all loops, source order
	top   []node
	nodes map[*loopInfo][]node
	back  map[[2]int]bool // edge (from,to) is a back edge
}

func analyzeFn(fn *ssa.Function) *fnInfo {
	fi := &fnInfo{fn: fn, rpo: map[*ssa.BasicBlock]int{}, nodes: map[*loopInfo][]node{}, back: map[[2]int]bool{}}
	// back edges: u->h where h dominates u
	byHeader := map[*ssa.BasicBlock]*loopInfo{}
	for _, b := range fn.Blocks {
		for _, s := range b.Succs {
			if s.Dominates(b) {
				fi.back[[2]int{b.Index, s.Index}] = true
				l := byHeader[s]
				if l == nil {
					l = &loopInfo{header: s, body: map[*ssa.BasicBlock]bool{s: true}}
					byHeader[s] = l
					fi.loops = append(fi.loops, l)
				}
				// natural loop: blocks reaching b without passing s
				stack := []*ssa.BasicBlock{b}
				for len(stack) > 0 {
					x := stack[len(stack)-1]
					stack = stack[:len(stack)-1]
					if l.body[x] {
						continue
					}
					l.body[x] = true
					for _, p := range x.Preds {
						stack = append(stack, p)
					}
				}
			}
		}
	}
	// RPO ignoring back edges
	visited := map[*ssa.BasicBlock]bool{}
	var post []*ssa.BasicBlock
	var dfs func(b *ssa.BasicBlock)
	dfs = func(b *ssa.BasicBlock) {
		visited[b] = true
		for i := len(b.Succs) - 1; i >= 0; i-- {
			s := b.Succs[i]
			if fi.back[[2]int{b.Index, s.Index}] || visited[s] {
				continue
			}
			dfs(s)
		}
		post = append(post, b)
	}
	if len(fn.Blocks) > 0 {
		dfs(fn.Blocks[0])
	}
	for i, b := range post {
		fi.rpo[b] = len(post) - 1 - i
	}
	// loop position = smallest position of an instruction in the header or
	// the loop's For/Range statement; use header's first positioned instr.
	for _, l := range fi.loops {
		l.pos = loopPos(l)
	}
	sort.Slice(fi.loops, func(i, j int) bool { return fi.loops[i].pos < fi.loops[j].pos })
	for i, l := range fi.loops {
		l.ord = i
	}
	// nesting: parent = smallest loop strictly containing header
	for _, l := range fi.loops {
		var best *loopInfo
		for _, m := range fi.loops {
			if m == l || !m.body[l.header] {
				continue
			}
			if len(m.body) <= len(l.body) {
				continue
			}
			if best == nil || len(m.body) < len(best.body) {
				best = m
			}
		}
		l.parent = best
		if best != nil {
			best.children = append(best.children, l)
		}
	}
	innermost := func(b *ssa.BasicBlock) *loopInfo {
		var best *loopInfo
		for _, l := range fi.loops {
			if l.body[b] && (best == nil || len(l.body) < len(best.body)) {
				best = l
			}
		}
		return best
	}
	add := func(owner *loopInfo, n node) {
		if owner == nil {
			fi.top = append(fi.top, n)
		} else {
			fi.nodes[owner] = append(fi.nodes[owner], n)
		}
	}
	for _, b := range fn.Blocks {
		if _, ok := fi.rpo[b]; !ok {
			continue // unreachable
		}
		l := innermost(b)
		if l != nil && l.header == b {
			// header block belongs to l's node list; l itself is a node of parent
			add(l, node{block: b})
			add(l.parent, node{loop: l})
		} else {
			add(l, node{block: b})
		}
	}
	key := func(n node) int {
		if n.block != nil {
			return fi.rpo[n.block]
		}
		return fi.rpo[n.loop.header]
	}
	sort.SliceStable(fi.top, func(i, j int) bool { return key(fi.top[i]) < key(fi.top[j]) })
	for l := range fi.nodes {
		ns := fi.nodes[l]
		sort.SliceStable(ns, func(i, j int) bool {
			// the header block comes first
			if ns[i].block == l.header {
				return true
			}
			if ns[j].block == l.header {
				return false
			}
			return key(ns[i]) < key(ns[j])
		})
	}
	if traceBlocks {
		fmt.Fprintf(os.Stderr, "fn %s: %d blocks, top order:", fn.Name(), len(fn.Blocks))
		for _, n := range fi.top {
			if n.block != nil {
				fmt.Fprintf(os.Stderr, " %d", n.block.Index)
			} else {
				fmt.Fprintf(os.Stderr, " L%d", n.loop.header.Index)
			}
		}
		fmt.Fprintln(os.Stderr)
	}
	return fi
}

func loopPos(l *loopInfo) token.Pos {
	best := token.NoPos
	for b := range l.body {
		for _, in := range b.Instrs {
			p := in.Pos()
			if p.IsValid() && (best == token.NoPos || p < best) {
				best = p
			}
		}
	}
	return best
}

// ---- executor ----

type retState struct {
	st  *State
	res []*Val
}

type frame struct {
	fn      *ssa.Function
	fi      *fnInfo
	pending map[*ssa.BasicBlock][]edgeState
	rets    []retState
	fc      *FuncContract
	entry   *State
	entryVars map[string]*Val
	callCount map[string]int
}

func (c *Ctx) runNodes(fr *frame, ns []node) {
	for _, n := range ns {
		if n.block != nil {
			es := fr.pending[n.block]
			delete(fr.pending, n.block)
			st := c.enterBlock(fr, n.block, es)
			if st == nil {
				continue
			}
			c.execBlock(fr, n.block, st)
		} else {
			c.runLoop(fr, n.loop)
		}
	}
}

func (c *Ctx) enterBlock(fr *frame, b *ssa.BasicBlock, es []edgeState) *State {
	var live []edgeState
	for _, e := range es {
		if !e.st.pc.IsFalse() {
			live = append(live, e)
		}
	}
	if len(live) == 0 {
		return nil
	}
	// phis are evaluated per incoming edge before merging
	var phis []*ssa.Phi
	for _, in := range b.Instrs {
		if p, ok := in.(*ssa.Phi); ok {
			phis = append(phis, p)
		} else {
			break
		}
	}
	if len(phis) > 0 {
		for _, e := range live {
			idx := -1
			for i, p := range b.Preds {
				if p == e.from {
					idx = i
					break
				}
			}
			if idx < 0 {
				unsup("phi: predecessor not found")
			}
			vals := make([]*Val, len(phis))
			for i, p := range phis {
				vals[i] = c.operand(e.st, p.Edges[idx])
			}
			for i, p := range phis {
				e.st.regs[p] = vals[i]
			}
		}
	}
	return c.mergeStates(live)
}

const maxUnroll = 20000

// initStepBudget bounds the symbolic execution of one init function by a
// deterministic instruction count (never by wall-clock time: the outcome of a
// check must not depend on machine load).
const initStepBudget = 1500000

var traceBlocks = os.Getenv("GOVC_TRACE") != ""

func (c *Ctx) runLoop(fr *frame, l *loopInfo) {
	es := fr.pending[l.header]
	delete(fr.pending, l.header)
	entry := c.enterBlock(fr, l.header, es)
	if entry == nil {
		return
	}
	var lc *LoopContract
	if fr.fc != nil {
		lc = fr.fc.Loops[l.ord]
	}
	if c.inlineDepth > 0 {
		lc = nil // force-inlined for its functional behaviour: unroll, do not cut
	}
	if c.bmc > 0 {
		// bounded search for a replayable counterexample: no loop is cut,
		// every loop is unrolled c.bmc times from the real entry state and
		// longer executions are dropped (this mode only ever yields models,
		// never proofs)
		cur := entry
		for iter := 0; iter < c.bmc; iter++ {
			fr.pending[l.header] = []edgeState{{from: nil, st: cur}}
			c.runNodesLoop(fr, l)
			back := fr.pending[l.header]
			delete(fr.pending, l.header)
			nxt := c.enterBlock(fr, l.header, back)
			if nxt == nil {
				return
			}
			cur = nxt
		}
		// one more header evaluation so that exits after the last iteration are kept
		fr.pending[l.header] = []edgeState{{from: nil, st: cur}}
		c.runNodesLoop(fr, l)
		delete(fr.pending, l.header)
		return
	}
	if lc == nil {
		// try to unroll; fall back to the trivial invariant (havoc) if the
		// trip count is not constant
		backup := entry.clone()
		nAssume, nObl, nRets, unr := len(c.assumes), len(c.obls), len(fr.rets), c.unrolled
		cnt := map[string]int{}
		for k, v := range c.oblCount {
			cnt[k] = v
		}
		pend := map[*ssa.BasicBlock][]edgeState{}
		for k, v := range fr.pending {
			pend[k] = append([]edgeState(nil), v...)
		}
		cur := entry
		ok := true
		for iter := 0; ; iter++ {
			c.unrolled++

			if (c.unrolled > maxUnroll || iter > 4096) && !c.W.initMode || iter > 200000 {
				ok = false
				break
			}
			fr.pending[l.header] = []edgeState{{from: nil, st: cur}}
			c.runNodesLoop(fr, l)
			back := fr.pending[l.header]
			delete(fr.pending, l.header)
			nxt := c.enterBlock(fr, l.header, back)
			if nxt == nil {
				break
			}
			if !c.W.initMode && !nxt.pc.IsConst() && (iter == 4 || iter == 8 || iter == 16 || iter == 32) && c.feasChecks < 12 && !c.feasible(nxt.pc) {
				break // the loop cannot run any longer: unrolling is complete
			}
			if !nxt.pc.IsTrue() && !entry.pc.IsConst() && iter > 40 || (!nxt.pc.IsTrue() && iter > 300) {
				ok = false
				break
			}
			cur = nxt
		}
		if ok {
			return
		}
		if c.W.initMode {
			unsup("loop %d of %s does not unroll", l.ord, fr.fn.Name())
		}
		c.assumes = c.assumes[:nAssume]
		c.obls = c.obls[:nObl]
		fr.rets = fr.rets[:nRets]
		c.unrolled = unr
		c.oblCount = cnt
		fr.pending = pend
		delete(fr.pending, l.header)
		entry = backup
		lc = &LoopContract{}
	}
	c.runLoopInv(fr, l, lc, entry)
}

// runNodesLoop executes the body nodes of l once; the header is consumed
// from pending (a single prepared state, phis already resolved).
func (c *Ctx) runNodesLoop(fr *frame, l *loopInfo) {
	ns := fr.fi.nodes[l]
	for i, n := range ns {
		if i == 0 && n.block == l.header {
			es := fr.pending[l.header]
			delete(fr.pending, l.header)
			if len(es) != 1 {
				panic("loop header: expected one prepared state")
			}
			c.execBlock(fr, l.header, es[0].st)
			continue
		}
		c.runNodes(fr, []node{n})
	}
}

func (c *Ctx) execBlock(fr *frame, b *ssa.BasicBlock, st *State) {
	c.curExecFrame = fr
	if traceBlocks {
		fmt.Fprintf(os.Stderr, "  block %s#%d (%s) pcsize=%d\n", fr.fn.Name(), b.Index, b.Comment, termSize([]*Term{st.pc}))
	}
	for _, in := range b.Instrs {
		c.curExecFrame = fr
		c.steps++
		if c.W.initMode && c.steps > initStepBudget {
			unsup("initialiser too expensive to execute symbolically (more than %d SSA instructions, in %s)", initStepBudget, fr.fn.Name())
		}
		if _, ok := in.(*ssa.Phi); ok {
			continue
		}
		if st.pc.IsFalse() {
			return
		}
		switch x := in.(type) {
		case *ssa.If:
			cv := c.operand(st, x.Cond).T()
			if c.knownTrue != nil {
				if c.knownTrue[cv] {
					cv = True
				} else if c.knownTrue[Not(cv)] {
					cv = False
				}
			}
			if cv.IsConst() {
				k := 1
				if cv.IsTrue() {
					k = 0
				}
				fr.pending[b.Succs[k]] = append(fr.pending[b.Succs[k]], edgeState{b, st})
				return
			}
			t := st.clone()
			t.pc = And(st.pc, cv)
			f := st
			f.pc = And(st.pc, Not(cv))
			fr.pending[b.Succs[0]] = append(fr.pending[b.Succs[0]], edgeState{b, t})
			fr.pending[b.Succs[1]] = append(fr.pending[b.Succs[1]], edgeState{b, f})
			return
		case *ssa.Jump:
			fr.pending[b.Succs[0]] = append(fr.pending[b.Succs[0]], edgeState{b, st})
			return
		case *ssa.Return:
			res := make([]*Val, len(x.Results))
			for i, r := range x.Results {
				res[i] = c.operand(st, r)
			}
			fr.rets = append(fr.rets, retState{st, res})
			return
		case *ssa.Panic:
			c.oblige(st, "panic", c.W.srcText(x.Pos(), "panic"), x.Pos(), False)
			return
		default:
			c.execInstr(fr, st, in)
		}
	}
}

func (c *Ctx) operand(st *State, v ssa.Value) *Val {
	switch x := v.(type) {
	case *ssa.Const:
		return c.constVal(x)
	case *ssa.Global:
		return c.W.globalPtr(c, st, x)
	case *ssa.Function:
		return &Val{Typ: x.Type(), Fn: &FnVal{Fn: x}}
	case *ssa.Builtin:
		return &Val{Typ: x.Type(), Fn: &FnVal{Builtin: x}}
	}
	r, ok := st.regs[v]
	if !ok {
		unsup("value %s (%T) not available", v.Name(), v)
	}
	if r == poison {
		unsup("use of value %s merged from incompatible representations", v.Name())
	}
	return r
}

func (c *Ctx) constVal(x *ssa.Const) *Val {
	t := x.Type()
	if x.Value == nil {
		return zeroVal(t)
	}
	if w, _, ok := isIntType(t); ok {
		var u uint64
		if i, ok := constant.Int64Val(constant.ToInt(x.Value)); ok {
			u = uint64(i)
		} else if uu, ok := constant.Uint64Val(constant.ToInt(x.Value)); ok {
			u = uu
		} else {
			unsup("integer constant out of range")
		}
		return intVal(t, Const(w, u))
	}
	if isBoolType(t) {
		return &Val{Typ: t, L: []*Term{BoolConst(constant.BoolVal(x.Value))}}
	}
	if w, ok := isFloatType(t); ok {
		f, _ := constant.Float64Val(x.Value)
		return &Val{Typ: t, L: []*Term{c.W.floatConst(w, f)}}
	}
	if isStringType(t) {
		s := constant.StringVal(x.Value)
		return c.W.stringConst(t, s)
	}
	unsup("constant of type %s", t)
	return nil
}

func (c *Ctx) setReg(st *State, v ssa.Value, val *Val) {
	st.regs[v] = val
}

func isCellAlloc(a *ssa.Alloc) bool {
	refs := a.Referrers()
	if refs == nil {
		return !a.Heap
	}
	elem := a.Type().Underlying().(*types.Pointer).Elem()
	_, isArr := elem.Underlying().(*types.Array)
	for _, r := range *refs {
		switch x := r.(type) {
		case *ssa.UnOp:
			if x.Op != token.MUL {
				return false
			}
		case *ssa.Store:
			if x.Val == ssa.Value(a) {
				return false
			}
		case *ssa.FieldAddr, *ssa.DebugRef, *ssa.MakeClosure:
		case *ssa.IndexAddr:
			_ = isArr
		default:
			return false
		}
	}
	return true
}

func (c *Ctx) execInstr(fr *frame, st *State, in ssa.Instruction) {
	switch x := in.(type) {
	case *ssa.DebugRef:
		return
	case *ssa.Alloc:
		elem := x.Type().Underlying().(*types.Pointer).Elem()
		if isCellAlloc(x) {
			cell := newCell(x.Comment, elem)
			st.cells[cell] = zeroVal(elem)
			c.setReg(st, x, &Val{Typ: x.Type(), Ptr: &Addr{Cell: cell, RType: elem, Lo: 0, Hi: len(leafSorts(elem)), Typ: elem}})
			return
		}
		c.setReg(st, x, c.allocObject(st, elem, x.Type()))
	case *ssa.UnOp:
		c.execUnOp(st, x)
	case *ssa.Store:
		p := c.operand(st, x.Addr)
		if p.Ptr == nil {
			unsup("store through non-pointer")
		}
		c.oblige(st, "nil", c.W.srcText(x.Pos(), "store"), x.Pos(), addrNonNil(p.Ptr))
		c.storeAddr(st, p.Ptr, c.operand(st, x.Val))
	case *ssa.BinOp:
		c.setReg(st, x, c.binop(st, x.Op, c.operand(st, x.X), c.operand(st, x.Y), x.X.Type(), x.Type(), x.Pos()))
	case *ssa.FieldAddr:
		p := c.operand(st, x.X)
		if p.Ptr == nil {
			unsup("fieldaddr on non-pointer")
		}
		c.oblige(st, "nil", c.W.srcText(x.Pos(), "field "+fieldName(x)), x.Pos(), addrNonNil(p.Ptr))
		stt := p.Ptr.Typ.Underlying().(*types.Struct)
		lo, hi := fieldRange(stt, x.Field)
		a := *p.Ptr
		a.Lo, a.Hi = p.Ptr.Lo+lo, p.Ptr.Lo+hi
		a.Typ = stt.Field(x.Field).Type()
		c.setReg(st, x, ptrVal(x.Type(), &a))
	case *ssa.Field:
		v := c.operand(st, x.X)
		stt := v.Typ.Underlying().(*types.Struct)
		lo, hi := fieldRange(stt, x.Field)
		c.setReg(st, x, mkVal(stt.Field(x.Field).Type(), v.leaves()[lo:hi]))
	case *ssa.IndexAddr:
		c.execIndexAddr(st, x)
	case *ssa.Index:
		v := c.operand(st, x.X)
		iv := c.operand(st, x.Index)
		i := c.toIndex(iv, x.Index.Type())
		switch u := v.Typ.Underlying().(type) {
		case *types.Array:
			c.oblige(st, "index", c.W.srcText(x.Pos(), "index"), x.Pos(), ULt(i, Const(64, uint64(u.Len()))))
			l := v.leaves()
			out := make([]*Term, len(l))
			for j := range l {
				out[j] = Select(l[j], i)
			}
			c.setReg(st, x, mkVal(u.Elem(), out))
		default:
			// string indexing
			if isStringType(v.Typ) {
				c.oblige(st, "index", c.W.srcText(x.Pos(), "index"), x.Pos(), ULt(i, v.L[1]))
				c.setReg(st, x, intVal(x.Type(), UF("strbyte", BV(8), v.L[0], i)))
				return
			}
			unsup("index on %s", v.Typ)
		}
	case *ssa.Slice:
		c.execSlice(st, x)
	case *ssa.MakeSlice:
		ln := c.toIndex(c.operand(st, x.Len), x.Len.Type())
		cp := c.toIndex(c.operand(st, x.Cap), x.Cap.Type())
		c.oblige(st, "make", c.W.srcText(x.Pos(), "make"), x.Pos(), And(SLe(Const(64, 0), ln), SLe(ln, cp)))
		c.assume(st.pc, SLe(cp, Const(64, 1<<48))) // allocation succeeded
		et := x.Type().Underlying().(*types.Slice).Elem()
		ref := c.newRegion(st, et)
		c.setReg(st, x, mkVal(x.Type(), []*Term{ref, Const(64, 0), ln, cp}))
	case *ssa.Call:
		res := c.execCall(fr, st, &x.Call, x)
		if res != nil {
			c.setReg(st, x, res)
		}
	case *ssa.Convert:
		c.setReg(st, x, c.convert(st, c.operand(st, x.X), x.X.Type(), x.Type()))
	case *ssa.ChangeType:
		v := c.operand(st, x.X)
		nv := *v
		nv.Typ = x.Type()
		c.setReg(st, x, &nv)
	case *ssa.ChangeInterface:
		v := c.operand(st, x.X)
		nv := *v
		nv.Typ = x.Type()
		c.setReg(st, x, &nv)
	case *ssa.MakeInterface:
		c.setReg(st, x, c.makeInterface(st, c.operand(st, x.X), x.X.Type(), x.Type()))
	case *ssa.TypeAssert:
		c.execTypeAssert(st, x)
	case *ssa.Extract:
		tv := c.operand(st, x.Tuple)
		c.setReg(st, x, tupleAt(tv, x.Index))
	case *ssa.MakeClosure:
		fn := x.Fn.(*ssa.Function)
		b := make([]*Val, len(x.Bindings))
		for i, bv := range x.Bindings {
			b[i] = c.operand(st, bv)
		}
		c.setReg(st, x, &Val{Typ: x.Type(), Fn: &FnVal{Fn: fn, Bindings: b}})
	case *ssa.Defer:
		d := deferred{call: &x.Call, pc: st.pc}
		for _, a := range x.Call.Args {
			d.args = append(d.args, c.operand(st, a))
		}
		if !x.Call.IsInvoke() {
			switch x.Call.Value.(type) {
			case *ssa.Function, *ssa.Builtin:
			default:
				d.fn = c.operand(st, x.Call.Value)
			}
		} else {
			d.fn = c.operand(st, x.Call.Value)
		}
		st.defers = append(st.defers, d)
	case *ssa.RunDefers:
		ds := st.defers
		st.defers = nil
		for i := len(ds) - 1; i >= 0; i-- {
			c.execDeferred(fr, st, ds[i])
		}
	case *ssa.MakeMap:
		c.setReg(st, x, mkVal(x.Type(), []*Term{c.newRef(st)}))
	case *ssa.MapUpdate:
		c.abstracted("map update")
	case *ssa.Lookup:
		c.abstracted("map/string lookup")
		if x.CommaOk {
			tt := x.Type().(*types.Tuple)
			c.setReg(st, x, &Val{Typ: tt, L: nil, Ptr: nil, Fn: nil})
			st.regs[x] = makeTuple(tt, []*Val{c.havocVal(st, tt.At(0).Type(), "lookup"), c.havocVal(st, tt.At(1).Type(), "lookupok")})
		} else {
			c.setReg(st, x, c.havocVal(st, x.Type(), "lookup"))
		}
	case *ssa.Range, *ssa.Next:
		unsup("range over map or string")
	case *ssa.Go:
		unsup("go statement")
	case *ssa.Send, *ssa.Select, *ssa.MakeChan:
		unsup("channel operation")
	case *ssa.SliceToArrayPointer:
		unsup("slice to array pointer conversion")
	case *ssa.MultiConvert:
		unsup("generic conversion")
	default:
		unsup("instruction %T", in)
	}
}

func fieldName(x *ssa.FieldAddr) string {
	st := x.X.Type().Underlying().(*types.Pointer).Elem().Underlying().(*types.Struct)
	return st.Field(x.Field).Name()
}

// tuples are represented with the element values kept separately so that
// pointers and function values survive.
type tupleParts struct{ parts []*Val }

var tupleTab = map[*Val]*tupleParts{}

func makeTuple(t types.Type, parts []*Val) *Val {
	v := &Val{Typ: t}
	flat := true
	var l []*Term
	for _, p := range parts {
		if p == nil || p.L == nil {
			flat = false
			break
		}
		l = append(l, p.L...)
	}
	if flat {
		v.L = l
		if v.L == nil {
			v.L = []*Term{}
		}
	}
	tupleTab[v] = &tupleParts{parts}
	return v
}

func tupleAt(v *Val, i int) *Val {
	if tp, ok := tupleTab[v]; ok {
		return tp.parts[i]
	}
	tt, ok := v.Typ.(*types.Tuple)
	if !ok {
		panic("tupleAt on non-tuple")
	}
	lo := 0
	for j := 0; j < i; j++ {
		lo += len(leafSorts(tt.At(j).Type()))
	}
	n := len(leafSorts(tt.At(i).Type()))
	if v.L == nil {
		unsup("tuple with non-flat parts was merged")
	}
	return mkVal(tt.At(i).Type(), v.L[lo:lo+n])
}

func (c *Ctx) havocVal(st *State, t types.Type, prefix string) *Val {
	v := freshVal(t, prefix)
	if inv := c.typeInvariant(st, v); !inv.IsTrue() {
		c.assume(st.pc, inv)
	}
	return v
}

// allocObject allocates a zeroed heap object of type elem and returns a pointer.
func (c *Ctx) allocObject(st *State, elem types.Type, ptrType types.Type) *Val {
	if at, ok := elem.Underlying().(*types.Array); ok {
		// arrays live in element regions so that they can be sliced
		ref := c.newRegion(st, at.Elem())
		return &Val{Typ: ptrType, Ptr: &Addr{Root: ref, RType: at.Elem(), Elem: true, Lo: 0, Hi: len(leafSorts(at.Elem())), Typ: elem}}
	}
	ref := c.newRef(st)
	ss := leafSorts(elem)
	tk := typeKey(elem)
	for j, s := range ss {
		k := HKey{T: tk, Leaf: j}
		h := c.heapGet(st, k, heapSort(false, s))
		st.heap[k] = Store(h, ref, zeroOfSort(s))
	}
	return mkVal(ptrType, []*Term{ref})
}

func (c *Ctx) newRegion(st *State, et types.Type) *Term {
	ref := c.newRef(st)
	ss := leafSorts(et)
	tk := typeKey(et)
	for j, s := range ss {
		k := HKey{Elem: true, T: tk, Leaf: j}
		h := c.heapGet(st, k, heapSort(true, s))
		st.heap[k] = Store(h, ref, ConstArr(ArrSort(BV(64), s), zeroOfSort(s)))
	}
	return ref
}

func (c *Ctx) toIndex(v *Val, t types.Type) *Term {
	w, signed, ok := isIntType(t)
	if !ok {
		unsup("non-integer index")
	}
	x := v.T()
	if w == 64 {
		return x
	}
	if w > 64 {
		unsup("wide index")
	}
	if signed {
		return SExt(x, 64)
	}
	return ZExt(x, 64)
}

func (c *Ctx) execUnOp(st *State, x *ssa.UnOp) {
	v := c.operand(st, x.X)
	switch x.Op {
	case token.MUL:
		if v.Ptr == nil {
			unsup("load through non-pointer %s", x.X.Type())
		}
		c.oblige(st, "nil", c.W.srcText(x.Pos(), "load"), x.Pos(), addrNonNil(v.Ptr))
		c.setReg(st, x, c.loadAddr(st, v.Ptr))
	case token.SUB:
		if _, ok := isFloatType(x.Type()); ok {
			c.setReg(st, x, &Val{Typ: x.Type(), L: []*Term{UF(fmt.Sprintf("fneg%d", v.T().S.W), v.T().S, v.T())}})
			return
		}
		c.setReg(st, x, intVal(x.Type(), Neg(v.T())))
	case token.XOR:
		c.setReg(st, x, intVal(x.Type(), BNot(v.T())))
	case token.NOT:
		c.setReg(st, x, &Val{Typ: x.Type(), L: []*Term{Not(v.T())}})
	default:
		unsup("unary operator %s", x.Op)
	}
}

func (c *Ctx) execIndexAddr(st *State, x *ssa.IndexAddr) {
	base := c.operand(st, x.X)
	i := c.toIndex(c.operand(st, x.Index), x.Index.Type())
	text := c.W.srcText(x.Pos(), "index")
	if fr := c.curExecFrame; fr != nil && fr.fc != nil && len(fr.fc.IndexAsserts) > 0 && c.quiet == 0 {
		if br := strings.LastIndex(text, "["); br > 0 {
			baseText := text[:br]
			for _, ia := range fr.fc.IndexAsserts {
				if ia.Callee != baseText {
					continue
				}
				env := c.specEnv(fr, st)
				env.lookup = c.localLookup(fr, st, token.NoPos)
				for name, v := range fr.entryVars {
					env.vars[name] = v
				}
				env.vars["idx"] = intVal(types.Typ[types.Int], i)
				c.oblige(st, "footprint", baseText+":"+ia.C.Text, x.Pos(), c.evalClause(env, ia.C))
			}
		}
	}
	switch u := x.X.Type().Underlying().(type) {
	case *types.Slice:
		l := base.leaves()
		c.oblige(st, "index", text, x.Pos(), ULt(i, l[2]))
		et := u.Elem()
		a := &Addr{Root: l[0], RType: et, Elem: true, EIdx: Add(l[1], i), Lo: 0, Hi: len(leafSorts(et)), Typ: et}
		c.setReg(st, x, ptrVal(x.Type(), a))
	case *types.Pointer:
		at := u.Elem().Underlying().(*types.Array)
		if base.Ptr == nil {
			unsup("indexaddr on non-pointer")
		}
		c.oblige(st, "nil", text, x.Pos(), addrNonNil(base.Ptr))
		c.oblige(st, "index", text, x.Pos(), ULt(i, Const(64, uint64(at.Len()))))
		a := *base.Ptr
		if a.Elem && a.EIdx == nil {
			a.EIdx = i
		} else {
			a.Idx = append(append([]*Term(nil), a.Idx...), i)
		}
		a.Typ = at.Elem()
		c.setReg(st, x, ptrVal(x.Type(), &a))
	default:
		unsup("indexaddr on %s", x.X.Type())
	}
}

func (c *Ctx) execSlice(st *State, x *ssa.Slice) {
	base := c.operand(st, x.X)
	text := c.W.srcText(x.Pos(), "slice")
	var lo, hi, mx *Term
	if x.Low != nil {
		lo = c.toIndex(c.operand(st, x.Low), x.Low.Type())
	}
	if x.High != nil {
		hi = c.toIndex(c.operand(st, x.High), x.High.Type())
	}
	if x.Max != nil {
		mx = c.toIndex(c.operand(st, x.Max), x.Max.Type())
	}
	zero := Const(64, 0)
	switch u := x.X.Type().Underlying().(type) {
	case *types.Slice:
		l := base.leaves()
		b, off, ln, cp := l[0], l[1], l[2], l[3]
		if lo == nil {
			lo = zero
		}
		if hi == nil {
			hi = ln
		}
		lim := cp
		if mx != nil {
			c.oblige(st, "slice", text+":max<=cap", x.Pos(), ULe(mx, cp))
			lim = mx
		}
		c.oblige(st, "slice", text+":high<=cap", x.Pos(), ULe(hi, lim))
		c.oblige(st, "slice", text+":low<=high", x.Pos(), ULe(lo, hi))
		nb := b
		// Go: slicing a nil slice yields nil; s[cap:] keeps the pointer.
		c.setReg(st, x, mkVal(x.Type(), []*Term{nb, Add(off, lo), Sub(hi, lo), Sub(lim, lo)}))
	case *types.Pointer:
		at := u.Elem().Underlying().(*types.Array)
		if base.Ptr == nil || !base.Ptr.Elem || base.Ptr.EIdx != nil || len(base.Ptr.Idx) != 0 {
			unsup("slicing an array that is not a stand-alone allocation")
		}
		n := Const(64, uint64(at.Len()))
		if lo == nil {
			lo = zero
		}
		if hi == nil {
			hi = n
		}
		lim := n
		if mx != nil {
			c.oblige(st, "slice", text+":max<=cap", x.Pos(), ULe(mx, n))
			lim = mx
		}
		c.oblige(st, "slice", text+":high<=cap", x.Pos(), ULe(hi, lim))
		c.oblige(st, "slice", text+":low<=high", x.Pos(), ULe(lo, hi))
		c.setReg(st, x, mkVal(x.Type(), []*Term{base.Ptr.Root, lo, Sub(hi, lo), Sub(lim, lo)}))
	default:
		if isStringType(x.X.Type()) {
			l := base.leaves()
			if lo == nil {
				lo = zero
			}
			if hi == nil {
				hi = l[1]
			}
			c.oblige(st, "slice", text+":high<=len", x.Pos(), ULe(hi, l[1]))
			c.oblige(st, "slice", text+":low<=high", x.Pos(), ULe(lo, hi))
			c.setReg(st, x, mkVal(x.Type(), []*Term{UF("substr", RefSort, l[0], lo, hi), Sub(hi, lo)}))
			return
		}
		unsup("slice of %s", x.X.Type())
	}
}

func (c *Ctx) binop(st *State, op token.Token, a, b *Val, opType types.Type, resType types.Type, pos token.Pos) *Val {
	if w, signed, ok := isIntType(opType); ok {
		x := a.T()
		switch op {
		case token.SHL, token.SHR:
			// shift count has its own type
			y := b.T()
			yw := y.S.W
			var cnt *Term
			if yw < w {
				cnt = ZExt(y, w) // counts are unsigned or proven non-negative by the compiler
			} else if yw > w {
				// large count: saturate
				big := Not(ULt(y, Const(yw, uint64(w))))
				cnt = Ite(big, Const(w, uint64(w)), Extract(w-1, 0, y))
			} else {
				cnt = y
			}
			if op == token.SHL {
				return intVal(resType, Shl(x, cnt))
			}
			if signed {
				return intVal(resType, AShr(x, cnt))
			}
			return intVal(resType, LShr(x, cnt))
		}
		y := b.T()
		switch op {
		case token.ADD:
			return intVal(resType, Add(x, y))
		case token.SUB:
			return intVal(resType, Sub(x, y))
		case token.MUL:
			return intVal(resType, Mul(x, y))
		case token.QUO, token.REM:
			c.oblige(st, "div", c.W.srcText(pos, "div"), pos, Neq(y, Const(w, 0)))
			if signed {
				if op == token.QUO {
					return intVal(resType, SDiv(x, y))
				}
				return intVal(resType, SRem(x, y))
			}
			if op == token.QUO {
				return intVal(resType, UDiv(x, y))
			}
			return intVal(resType, URem(x, y))
		case token.AND:
			return intVal(resType, BAnd(x, y))
		case token.OR:
			return intVal(resType, BOr(x, y))
		case token.XOR:
			return intVal(resType, BXor(x, y))
		case token.AND_NOT:
			return intVal(resType, BAnd(x, BNot(y)))
		case token.EQL:
			return boolVal(Eq(x, y))
		case token.NEQ:
			return boolVal(Neq(x, y))
		case token.LSS:
			if signed {
				return boolVal(SLt(x, y))
			}
			return boolVal(ULt(x, y))
		case token.LEQ:
			if signed {
				return boolVal(SLe(x, y))
			}
			return boolVal(ULe(x, y))
		case token.GTR:
			if signed {
				return boolVal(SLt(y, x))
			}
			return boolVal(ULt(y, x))
		case token.GEQ:
			if signed {
				return boolVal(SLe(y, x))
			}
			return boolVal(ULe(y, x))
		}
		unsup("integer operator %s", op)
	}
	if isBoolType(opType) {
		x, y := a.T(), b.T()
		switch op {
		case token.EQL:
			return boolVal(Eq(x, y))
		case token.NEQ:
			return boolVal(Neq(x, y))
		case token.AND, token.LAND:
			return boolVal(And(x, y))
		case token.OR, token.LOR:
			return boolVal(Or(x, y))
		}
		unsup("bool operator %s", op)
	}
	if w, ok := isFloatType(opType); ok {
		return c.floatOp(op, a.T(), b.T(), w, resType)
	}
	if isStringType(opType) {
		switch op {
		case token.EQL, token.NEQ:
			e := And(Eq(a.L[0], b.L[0]), Eq(a.L[1], b.L[1]))
			// equal identity implies equal strings; different identity is undetermined
			r := Fresh("streq", BoolSort)
			c.assume(st.pc, Implies(e, r))
			if a.L[0].IsConst() && b.L[0].IsConst() {
				r = e
			}
			if op == token.NEQ {
				r = Not(r)
			}
			return boolVal(r)
		case token.ADD:
			return c.havocVal(st, resType, "strcat")
		}
		return boolVal(Fresh("strcmp", BoolSort))
	}
	// pointers, slices (vs nil), interfaces, structs, arrays
	switch op {
	case token.EQL, token.NEQ:
		var e *Term
		switch opType.Underlying().(type) {
		case *types.Slice:
			// only comparison with nil is legal
			e = Eq(pickNonNil(a, b).leaves()[0], Const(32, 0))
		case *types.Interface:
			la, lb := a.leaves(), b.leaves()
			if isNilConst(b) {
				e = Eq(la[0], Const(32, 0))
			} else if isNilConst(a) {
				e = Eq(lb[0], Const(32, 0))
			} else {
				e = And(Eq(la[0], lb[0]), Eq(la[1], lb[1]))
			}
		case *types.Pointer:
			if a.L == nil || b.L == nil {
				if sameAddr(a.Ptr, b.Ptr) {
					e = True
				} else if a.Ptr != nil && b.Ptr != nil && (a.Ptr.Cell != nil || b.Ptr.Cell != nil) {
					// a local variable's address differs from nil and from other objects
					if a.Ptr.Cell != nil && b.Ptr.Cell != nil && a.Ptr.Cell == b.Ptr.Cell {
						unsup("comparison of interior pointers into the same variable")
					}
					e = False
				} else if a.Ptr != nil && b.Ptr != nil && a.Ptr.Elem && b.Ptr.Elem && a.Ptr.EIdx != nil && b.Ptr.EIdx != nil && len(a.Ptr.Idx) == 0 && len(b.Ptr.Idx) == 0 {
					e = And(Eq(a.Ptr.Root, b.Ptr.Root), Eq(a.Ptr.EIdx, b.Ptr.EIdx))
				} else if a.Ptr != nil && b.Ptr != nil && b.Ptr.isRoot() && b.Ptr.Root.IsConst() && b.Ptr.Root.Val == 0 {
					e = Eq(a.Ptr.Root, Const(32, 0))
				} else if a.Ptr != nil && b.Ptr != nil && a.Ptr.isRoot() && a.Ptr.Root.IsConst() && a.Ptr.Root.Val == 0 {
					e = Eq(b.Ptr.Root, Const(32, 0))
				} else {
					unsup("comparison of interior pointers")
				}
			} else {
				e = Eq(a.L[0], b.L[0])
			}
		default:
			e = eqVal(a, b)
		}
		if op == token.NEQ {
			e = Not(e)
		}
		return boolVal(e)
	}
	unsup("operator %s on %s", op, opType)
	return nil
}

func isNilConst(v *Val) bool {
	for _, l := range v.L {
		if !l.IsConst() || l.Val != 0 {
			return false
		}
	}
	return v.L != nil
}

func pickNonNil(a, b *Val) *Val {
	if isNilConst(a) {
		return b
	}
	return a
}

func (c *Ctx) convert(st *State, v *Val, from, to types.Type) *Val {
	fw, fs, fint := isIntType(from)
	tw, _, tint := isIntType(to)
	if fint && tint {
		x := v.T()
		var r *Term
		switch {
		case tw == fw:
			r = x
		case tw < fw:
			r = Extract(tw-1, 0, x)
		case fs:
			r = SExt(x, tw)
		default:
			r = ZExt(x, tw)
		}
		return intVal(to, r)
	}
	_, ffl := isFloatType(from)
	tfw, tfl := isFloatType(to)
	if fint && tfl {
		name := fmt.Sprintf("i2f_%d_%v_%d", fw, fs, tfw)
		return &Val{Typ: to, L: []*Term{UF(name, BV(tfw), v.T())}}
	}
	if ffl && tint {
		_, ts, _ := isIntType(to)
		name := fmt.Sprintf("f2i_%d_%d_%v", v.T().S.W, tw, ts)
		return intVal(to, UF(name, BV(tw), v.T()))
	}
	if ffl && tfl {
		if v.T().S.W == tfw {
			return &Val{Typ: to, L: v.L}
		}
		return &Val{Typ: to, L: []*Term{UF(fmt.Sprintf("f2f_%d_%d", v.T().S.W, tfw), BV(tfw), v.T())}}
	}
	if isStringType(to) {
		// string(bytes) / string(rune)
		c.abstracted("conversion to string")
		return c.havocVal(st, to, "str")
	}
	if isStringType(from) {
		if sl, ok := to.Underlying().(*types.Slice); ok {
			c.abstracted("conversion from string")
			ref := c.newRegion(st, sl.Elem())
			// contents unknown
			k := HKey{Elem: true, T: typeKey(sl.Elem()), Leaf: 0}
			s := leafSorts(sl.Elem())[0]
			h := c.heapGet(st, k, heapSort(true, s))
			st.heap[k] = Store(h, ref, Fresh("strbytes", ArrSort(BV(64), s)))
			return mkVal(to, []*Term{ref, Const(64, 0), v.L[1], v.L[1]})
		}
	}
	if _, ok := to.Underlying().(*types.Pointer); ok {
		if _, ok := from.Underlying().(*types.Pointer); ok {
			nv := *v
			nv.Typ = to
			return &nv
		}
	}
	unsup("conversion %s -> %s", from, to)
	return nil
}

func (c *Ctx) floatOp(op token.Token, x, y *Term, w int, resType types.Type) *Val {
	name := fmt.Sprintf("f%s%d", map[token.Token]string{token.ADD: "add", token.SUB: "sub", token.MUL: "mul", token.QUO: "div",
		token.EQL: "eq", token.NEQ: "ne", token.LSS: "lt", token.LEQ: "le", token.GTR: "gt", token.GEQ: "ge"}[op], w)
	switch op {
	case token.ADD, token.SUB, token.MUL, token.QUO:
		return &Val{Typ: resType, L: []*Term{UF(name, BV(w), x, y)}}
	case token.GTR:
		return boolVal(UF(fmt.Sprintf("flt%d", w), BoolSort, y, x))
	case token.GEQ:
		return boolVal(UF(fmt.Sprintf("fle%d", w), BoolSort, y, x))
	case token.NEQ:
		return boolVal(Not(UF(fmt.Sprintf("feq%d", w), BoolSort, x, y)))
	}
	return boolVal(UF(name, BoolSort, x, y))
}

// ---- interfaces ----

func (c *Ctx) makeInterface(st *State, v *Val, from, to types.Type) *Val {
	tag := Const(32, uint64(c.W.typeTag(from)))
	if _, ok := from.Underlying().(*types.Pointer); ok {
		return mkVal(to, []*Term{tag, v.leaves()[0]})
	}
	// box the value
	ref := c.newRef(st)
	ss := leafSorts(from)
	tk := "box:" + typeKey(from)
	vl := v.leaves()
	for j, s := range ss {
		k := HKey{T: tk, Leaf: j}
		h := c.heapGet(st, k, heapSort(false, s))
		st.heap[k] = Store(h, ref, vl[j])
	}
	return mkVal(to, []*Term{tag, ref})
}

func (c *Ctx) unbox(st *State, iv *Val, t types.Type) *Val {
	l := iv.leaves()
	if _, ok := t.Underlying().(*types.Pointer); ok {
		return mkVal(t, []*Term{l[1]})
	}
	ss := leafSorts(t)
	tk := "box:" + typeKey(t)
	out := make([]*Term, len(ss))
	for j, s := range ss {
		k := HKey{T: tk, Leaf: j}
		out[j] = Select(c.heapGet(st, k, heapSort(false, s)), l[1])
	}
	v := mkVal(t, out)
	if inv := c.typeInvariant(st, v); !inv.IsTrue() {
		c.assume(st.pc, inv)
	}
	return v
}

func (c *Ctx) execTypeAssert(st *State, x *ssa.TypeAssert) {
	iv := c.operand(st, x.X)
	l := iv.leaves()
	if _, isIface := x.AssertedType.Underlying().(*types.Interface); isIface {
		// interface-to-interface assertion: outcome depends on the method set
		ok := c.W.implementsCond(l[0], x.AssertedType)
		nv := mkVal(x.AssertedType, []*Term{Ite(ok, l[0], Const(32, 0)), Ite(ok, l[1], Const(32, 0))})
		if x.CommaOk {
			c.setReg(st, x, makeTuple(x.Type(), []*Val{nv, boolVal(ok)}))
		} else {
			c.oblige(st, "typeassert", c.W.srcText(x.Pos(), "assert"), x.Pos(), ok)
			c.setReg(st, x, mkVal(x.AssertedType, []*Term{l[0], l[1]}))
		}
		return
	}
	tag := Const(32, uint64(c.W.typeTag(x.AssertedType)))
	ok := Eq(l[0], tag)
	val := c.unbox(st, iv, x.AssertedType)
	if x.CommaOk {
		z := zeroVal(x.AssertedType)
		c.setReg(st, x, makeTuple(x.Type(), []*Val{iteVal(ok, val, z), boolVal(ok)}))
		return
	}
	c.oblige(st, "typeassert", c.W.srcText(x.Pos(), "assert"), x.Pos(), ok)
	c.setReg(st, x, val)
}

// ---- source text helpers ----

func (w *World) srcText(pos token.Pos, fallback string) string {
	if !pos.IsValid() {
		return fallback
	}
	if n, ok := w.posNode[pos]; ok {
		return normText(types.ExprString(n))
	}
	return fallback
}

func normText(s string) string {
	s = strings.Join(strings.Fields(s), "")
	if len(s) > 150 {
		s = s[:150]
	}
	return s
}

func (w *World) indexAST(files []*ast.File) {
	for _, f := range files {
		ast.Inspect(f, func(n ast.Node) bool {
			switch x := n.(type) {
			case *ast.IndexExpr:
				w.posNode[x.Lbrack] = x
			case *ast.SliceExpr:
				w.posNode[x.Lbrack] = x
			case *ast.BinaryExpr:
				w.posNode[x.OpPos] = x
			case *ast.CallExpr:
				w.posNode[x.Lparen] = x
			case *ast.StarExpr:
				w.posNode[x.Star] = x
			case *ast.SelectorExpr:
				w.posNode[x.Sel.Pos()] = x
			case *ast.TypeAssertExpr:
				w.posNode[x.Lparen] = x
			}
			return true
		})
	}
}

// feasible asks the solver whether a path condition is satisfiable under the
// facts collected so far (used to finish the unrolling of bounded loops whose
// exit condition is symbolic). Unknown counts as feasible.
func (c *Ctx) feasible(pc *Term) bool {
	if tmpDir == "" {
		return true
	}
	c.feasChecks++
	as := relevant(c.assumes, []*Term{pc})
	as = append(as, pc)
	q := BuildQuery(as, False, nil)
	r := solveModel(q, 1*time.Second)
	return r.status != "unsat"
}
