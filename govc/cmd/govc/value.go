package main

// Symbolic values: every Go value is flattened into a list of SMT leaves.
// Memory is Burstall-Bornat: one SMT array per (root type, leaf) class.

import (
	"fmt"
	"go/types"
	"regexp"
	"strings"

	"golang.org/x/tools/go/ssa"
)

var IntW = 64 // width of int/uint/uintptr in this run

type Cell struct {
	Name   string
	Typ    types.Type
	id     int
	Global *ssa.Global
}

var cellCtr int

func newCell(name string, t types.Type) *Cell {
	cellCtr++
	return &Cell{Name: name, Typ: t, id: cellCtr}
}

type Addr struct {
	Cell  *Cell
	Root  *Term
	RType types.Type
	Elem  bool
	EIdx  *Term
	Lo    int
	Hi    int
	Idx   []*Term
	Typ   types.Type
}

func (a *Addr) isRoot() bool {
	return a.Cell == nil && !a.Elem && len(a.Idx) == 0 && a.Lo == 0 && a.Hi == len(leafSorts(a.RType))
}

type FnVal struct {
	Fn       *ssa.Function
	Bindings []*Val
	Builtin  *ssa.Builtin
}

type Val struct {
	Typ types.Type
	L   []*Term
	Ptr *Addr  // pointer types
	Fn  *FnVal // function values known statically
}

type unsupported struct{ msg string }

func (u unsupported) Error() string { return "unsupported: " + u.msg }

func unsup(format string, a ...interface{}) {
	panic(unsupported{fmt.Sprintf(format, a...)})
}

func intWidth(b *types.Basic) (w int, signed bool, ok bool) {
	switch b.Kind() {
	case types.Int8:
		return 8, true, true
	case types.Int16:
		return 16, true, true
	case types.Int32:
		return 32, true, true
	case types.Int64:
		return 64, true, true
	case types.Int, types.UntypedInt, types.UntypedRune:
		return IntW, true, true
	case types.Uint8:
		return 8, false, true
	case types.Uint16:
		return 16, false, true
	case types.Uint32:
		return 32, false, true
	case types.Uint64:
		return 64, false, true
	case types.Uint, types.Uintptr:
		return IntW, false, true
	}
	return 0, false, false
}

func isIntType(t types.Type) (int, bool, bool) {
	if b, ok := t.Underlying().(*types.Basic); ok {
		return intWidth(b)
	}
	return 0, false, false
}

func isBoolType(t types.Type) bool {
	b, ok := t.Underlying().(*types.Basic)
	return ok && (b.Kind() == types.Bool || b.Kind() == types.UntypedBool)
}

func isFloatType(t types.Type) (int, bool) {
	if b, ok := t.Underlying().(*types.Basic); ok {
		switch b.Kind() {
		case types.Float32:
			return 32, true
		case types.Float64, types.UntypedFloat:
			return 64, true
		}
	}
	return 0, false
}

func isStringType(t types.Type) bool {
	b, ok := t.Underlying().(*types.Basic)
	return ok && (b.Kind() == types.String || b.Kind() == types.UntypedString)
}

var leafMemo = map[string][]*Sort{}

var typeKeyMemo = map[types.Type]string{}
var aliasWord = regexp.MustCompile(`\b(byte|rune|any)\b`)

func typeKey(t types.Type) string {
	if k, ok := typeKeyMemo[t]; ok {
		return k
	}
	s := types.TypeString(t, nil)
	// byte/uint8, rune/int32 and any/interface{} are identical types
	s = aliasWord.ReplaceAllStringFunc(s, func(w string) string {
		switch w {
		case "byte":
			return "uint8"
		case "rune":
			return "int32"
		}
		return "interface{}"
	})
	typeKeyMemo[t] = s
	return s
}

func arrayOf(ss []*Sort) []*Sort {
	out := make([]*Sort, len(ss))
	for i, s := range ss {
		out[i] = ArrSort(BV(64), s)
	}
	return out
}

// leafSorts flattens a Go type into SMT leaf sorts.
func leafSorts(t types.Type) []*Sort {
	k := typeKey(t)
	if r, ok := leafMemo[k]; ok {
		return r
	}
	var r []*Sort
	switch u := t.Underlying().(type) {
	case *types.Basic:
		if w, _, ok := intWidth(u); ok {
			r = []*Sort{BV(w)}
		} else if isBoolType(t) {
			r = []*Sort{BoolSort}
		} else if w, ok := isFloatType(t); ok {
			r = []*Sort{BV(w)}
		} else if isStringType(t) {
			r = []*Sort{RefSort, BV(64)} // identity, length
		} else if u.Kind() == types.UnsafePointer || u.Kind() == types.UntypedNil {
			r = []*Sort{RefSort}
		} else if u.Kind() == types.Complex128 || u.Kind() == types.Complex64 {
			r = []*Sort{BV(64), BV(64)}
		} else {
			unsup("basic type %s", t)
		}
	case *types.Pointer, *types.Signature, *types.Map, *types.Chan:
		r = []*Sort{RefSort}
	case *types.Slice:
		r = []*Sort{RefSort, BV(64), BV(64), BV(64)} // base, off, len, cap
	case *types.Interface:
		r = []*Sort{BV(32), RefSort} // dynamic type tag, payload ref
	case *types.Struct:
		for i := 0; i < u.NumFields(); i++ {
			r = append(r, leafSorts(u.Field(i).Type())...)
		}
	case *types.Array:
		r = arrayOf(leafSorts(u.Elem()))
	case *types.Tuple:
		for i := 0; i < u.Len(); i++ {
			r = append(r, leafSorts(u.At(i).Type())...)
		}
	case *types.TypeParam:
		unsup("type parameter %s", t)
	default:
		// opaque runtime-internal types (e.g. ssa's deferStack)
		r = []*Sort{RefSort}
	}
	if r == nil {
		r = []*Sort{}
	}
	leafMemo[k] = r
	return r
}

func fieldRange(st *types.Struct, idx int) (int, int) {
	lo := 0
	for i := 0; i < idx; i++ {
		lo += len(leafSorts(st.Field(i).Type()))
	}
	return lo, lo + len(leafSorts(st.Field(idx).Type()))
}

func zeroOfSort(s *Sort) *Term {
	switch s.Kind {
	case SBool:
		return False
	case SBV:
		return Const(s.W, 0)
	default:
		return ConstArr(s, zeroOfSort(s.Elem))
	}
}

var fnIds = map[*ssa.Function]int{}
var fnById = map[int]*ssa.Function{}

func fnId(f *ssa.Function) int {
	if id, ok := fnIds[f]; ok {
		return id
	}
	id := 0x20000000 + len(fnIds) + 1
	fnIds[f] = id
	fnById[id] = f
	return id
}

func mkVal(t types.Type, l []*Term) *Val {
	v := &Val{Typ: t, L: l}
	if _, ok := t.Underlying().(*types.Signature); ok && len(l) == 1 && l[0].IsConst() {
		if f, ok := fnById[int(l[0].Val)]; ok {
			v.Fn = &FnVal{Fn: f}
		}
	}
	if p, ok := t.Underlying().(*types.Pointer); ok && len(l) == 1 {
		v.Ptr = &Addr{Root: l[0], RType: p.Elem(), Lo: 0, Hi: len(leafSorts(p.Elem())), Typ: p.Elem()}
	}
	return v
}

func ptrVal(t types.Type, a *Addr) *Val {
	v := &Val{Typ: t, Ptr: a}
	if a.isRoot() {
		v.L = []*Term{a.Root}
	}
	return v
}

func zeroVal(t types.Type) *Val {
	ss := leafSorts(t)
	l := make([]*Term, len(ss))
	for i, s := range ss {
		l[i] = zeroOfSort(s)
	}
	return mkVal(t, l)
}

func freshVal(t types.Type, prefix string) *Val {
	ss := leafSorts(t)
	l := make([]*Term, len(ss))
	for i, s := range ss {
		l[i] = Fresh(fmt.Sprintf("%s.%d", prefix, i), s)
	}
	return mkVal(t, l)
}

func (v *Val) leaves() []*Term {
	if v.L == nil && v.Ptr != nil {
		if v.Ptr.isRoot() {
			return []*Term{v.Ptr.Root}
		}
		unsup("interior or local pointer (%s) must not be stored, merged or compared", v.Typ)
	}
	if v.L == nil && v.Fn != nil {
		if v.Fn.Fn != nil && len(v.Fn.Bindings) == 0 {
			return []*Term{Const(32, uint64(fnId(v.Fn.Fn)))}
		}
		unsup("closure or builtin value stored or merged")
	}
	return v.L
}

func (v *Val) T() *Term {
	l := v.leaves()
	if len(l) != 1 {
		panic(fmt.Sprintf("T() on value of type %s with %d leaves", v.Typ, len(l)))
	}
	return l[0]
}

func intVal(t types.Type, x *Term) *Val  { return &Val{Typ: t, L: []*Term{x}} }
func boolVal(x *Term) *Val               { return &Val{Typ: types.Typ[types.Bool], L: []*Term{x}} }
func sameAddr(a, b *Addr) bool {
	if a == b {
		return true
	}
	if a == nil || b == nil {
		return false
	}
	if a.Cell != b.Cell || a.Root != b.Root || a.Elem != b.Elem || a.EIdx != b.EIdx || a.Lo != b.Lo || a.Hi != b.Hi || len(a.Idx) != len(b.Idx) {
		return false
	}
	for i := range a.Idx {
		if a.Idx[i] != b.Idx[i] {
			return false
		}
	}
	return true
}

func sameVal(a, b *Val) bool {
	if a == b {
		return true
	}
	if a == nil || b == nil {
		return false
	}
	if a.Fn != nil || b.Fn != nil {
		return a.Fn != nil && b.Fn != nil && a.Fn.Fn == b.Fn.Fn && a.Fn.Builtin == b.Fn.Builtin && len(a.Fn.Bindings) == len(b.Fn.Bindings) && func() bool {
			for i := range a.Fn.Bindings {
				if !sameVal(a.Fn.Bindings[i], b.Fn.Bindings[i]) {
					return false
				}
			}
			return true
		}()
	}
	if a.L == nil || b.L == nil {
		return a.L == nil && b.L == nil && sameAddr(a.Ptr, b.Ptr)
	}
	if len(a.L) != len(b.L) {
		return false
	}
	for i := range a.L {
		if a.L[i] != b.L[i] {
			return false
		}
	}
	return true
}

// poison marks a value that could not be merged; using it is an error.
type poisonT struct{}

var poison = &Val{Typ: types.Typ[types.Invalid]}

func iteVal(c *Term, a, b *Val) *Val {
	if sameVal(a, b) {
		return a
	}
	if a == poison || b == poison || a == nil || b == nil {
		return poison
	}
	if a.L == nil || b.L == nil || len(a.L) != len(b.L) {
		return poison
	}
	l := make([]*Term, len(a.L))
	for i := range l {
		l[i] = Ite(c, a.L[i], b.L[i])
	}
	return mkVal(a.Typ, l)
}

func eqVal(a, b *Val) *Term {
	// interior pointers (into a slice element or a struct field): equal iff
	// they name the same location
	if a.L == nil && b.L == nil && a.Ptr != nil && b.Ptr != nil && !(a.Ptr.isRoot() && b.Ptr.isRoot()) {
		pa, pb := a.Ptr, b.Ptr
		if pa.Cell != nil || pb.Cell != nil {
			if pa.Cell == pb.Cell && pa.Lo == pb.Lo && pa.Hi == pb.Hi && len(pa.Idx) == 0 && len(pb.Idx) == 0 {
				return True
			}
			unsup("comparison of pointers to local variables")
		}
		if pa.Elem != pb.Elem || pa.Lo != pb.Lo || pa.Hi != pb.Hi || len(pa.Idx) != len(pb.Idx) || typeKey(pa.RType) != typeKey(pb.RType) {
			return False
		}
		cs := []*Term{Eq(pa.Root, pb.Root)}
		if pa.Elem {
			if pa.EIdx == nil || pb.EIdx == nil {
				unsup("comparison of element pointers without an index")
			}
			cs = append(cs, Eq(pa.EIdx, pb.EIdx))
		}
		for i := range pa.Idx {
			cs = append(cs, Eq(pa.Idx[i], pb.Idx[i]))
		}
		return And(cs...)
	}
	la, lb := a.leaves(), b.leaves()
	if len(la) != len(lb) {
		panic("eqVal: leaf count mismatch")
	}
	cs := make([]*Term, len(la))
	for i := range la {
		cs[i] = Eq(la[i], lb[i])
	}
	return And(cs...)
}

// ---- heap ----

type HKey struct {
	Elem bool
	T    string
	Leaf int
}

func (k HKey) String() string {
	e := "obj"
	if k.Elem {
		e = "elem"
	}
	return fmt.Sprintf("%s:%s#%d", e, k.T, k.Leaf)
}

func heapSort(elem bool, leaf *Sort) *Sort {
	if elem {
		return ArrSort(RefSort, ArrSort(BV(64), leaf))
	}
	return ArrSort(RefSort, leaf)
}

// nested select following index steps
func selPath(t *Term, idx []*Term) *Term {
	for _, i := range idx {
		t = Select(t, i)
	}
	return t
}

func storePath(t *Term, idx []*Term, v *Term) *Term {
	if len(idx) == 0 {
		return v
	}
	if len(idx) == 1 {
		return Store(t, idx[0], v)
	}
	inner := Select(t, idx[0])
	return Store(t, idx[0], storePath(inner, idx[1:], v))
}

func describeType(t types.Type) string {
	s := typeKey(t)
	if i := strings.LastIndex(s, "/"); i >= 0 {
		s = s[i+1:]
	}
	return s
}
