package main

import (
	"fmt"
	"go/token"
	"go/types"
	"os"
	"strings"
	"time"

	"golang.org/x/tools/go/ssa"
)

func fullName(fn *ssa.Function) string {
	// pkgpath.Recv.Name or pkgpath.Name
	if fn == nil {
		return "?"
	}
	if fn.Signature.Recv() != nil {
		rt := fn.Signature.Recv().Type()
		if p, ok := rt.(*types.Pointer); ok {
			rt = p.Elem()
		}
		if n, ok := rt.(*types.Named); ok {
			pk := ""
			if n.Obj().Pkg() != nil {
				pk = n.Obj().Pkg().Path() + "."
			}
			return pk + n.Obj().Name() + "." + fn.Name()
		}
	}
	if fn.Pkg != nil {
		return fn.Pkg.Pkg.Path() + "." + fn.Name()
	}
	if fn.Parent() != nil {
		return fullName(fn.Parent()) + "$" + fn.Name()
	}
	return fn.String()
}

func shortName(full string) string {
	// strip module path prefix
	s := strings.TrimPrefix(full, "github.com/deepteams/webp/")
	s = strings.TrimPrefix(s, "internal/")
	if s == full && strings.HasPrefix(full, "github.com/deepteams/webp.") {
		s = "webp." + strings.TrimPrefix(full, "github.com/deepteams/webp.")
	}
	return s
}

var pureExternals = map[string]bool{
	"fmt.Errorf": true, "fmt.Sprintf": true, "errors.New": true, "errors.Is": true, "errors.As": false,
	"fmt.Sprint": true, "strings.ToLower": true, "strings.ToUpper": true,
}

func (c *Ctx) execCall(fr *frame, st *State, call *ssa.CallCommon, instr ssa.Value) *Val {
	args := make([]*Val, len(call.Args))
	for i, a := range call.Args {
		args[i] = c.operand(st, a)
	}
	var pos token.Pos
	if instr != nil {
		pos = instr.Pos()
	}
	if pos == token.NoPos {
		pos = call.Pos()
	}
	if call.IsInvoke() {
		recv := c.operand(st, call.Value)
		return c.execInvoke(fr, st, call, recv, args, pos)
	}
	switch v := call.Value.(type) {
	case *ssa.Builtin:
		return c.execBuiltin(st, v, call, args, pos)
	case *ssa.Function:
		return c.callFunction(fr, st, v, nil, args, call, pos)
	case *ssa.MakeClosure:
		fv := c.operand(st, v)
		return c.callFunction(fr, st, fv.Fn.Fn, fv.Fn.Bindings, args, call, pos)
	}
	fv := c.operand(st, call.Value)
	if fv.Fn != nil {
		if fv.Fn.Builtin != nil {
			return c.execBuiltin(st, fv.Fn.Builtin, call, args, pos)
		}
		return c.callFunction(fr, st, fv.Fn.Fn, fv.Fn.Bindings, args, call, pos)
	}
	// unknown function value
	c.oblige(st, "nil", c.W.srcText(pos, "call"), pos, Neq(fv.leaves()[0], Const(32, 0)))
	c.abstracted("call through function value " + c.W.srcText(pos, "?"))
	return c.havocCall(st, call.Signature(), args, "dyn", false)
}

func (c *Ctx) execDeferred(fr *frame, st *State, d deferred) {
	if !d.pc.IsTrue() && d.pc != st.pc {
		// executed only if registered; approximate by requiring registration on every path
	}
	call := d.call
	if call.IsInvoke() {
		c.execInvoke(fr, st, call, d.fn, d.args, call.Pos())
		return
	}
	switch v := call.Value.(type) {
	case *ssa.Builtin:
		c.execBuiltin(st, v, call, d.args, call.Pos())
	case *ssa.Function:
		c.callFunction(fr, st, v, nil, d.args, call, call.Pos())
	default:
		if d.fn != nil && d.fn.Fn != nil && d.fn.Fn.Fn != nil {
			c.callFunction(fr, st, d.fn.Fn.Fn, d.fn.Fn.Bindings, d.args, call, call.Pos())
			return
		}
		c.abstracted("deferred dynamic call")
		c.havocCall(st, call.Signature(), d.args, "defer", false)
	}
}

// havocCall models a call whose body is not available: results are
// unconstrained, everything reachable from the arguments may change.
func (c *Ctx) havocCall(st *State, sig *types.Signature, args []*Val, prefix string, pure bool) *Val {
	if !pure {
		seen := map[string]bool{}
		for _, a := range args {
			if a != nil && a != poison {
				c.havocReachable(st, a.Typ, seen, 0)
			}
		}
		c.W.havocMutableGlobals(c, st)
		for _, a := range args {
			if a != nil && a != poison && typeMayHoldWriter(a.Typ, 0) {
				c.havocGhost(st)
				break
			}
		}
	}
	return c.freshResults(st, sig, prefix)
}

// typeMayHoldWriter: a value of this type can give access to an io.Writer
// (an interface, a function, or something that contains one).
func typeMayHoldWriter(t types.Type, depth int) bool {
	if depth > 4 {
		return true
	}
	switch u := t.Underlying().(type) {
	case *types.Basic:
		return false
	case *types.Interface, *types.Signature, *types.Map, *types.Chan:
		return true
	case *types.Pointer:
		return typeMayHoldWriter(u.Elem(), depth+1)
	case *types.Slice:
		return typeMayHoldWriter(u.Elem(), depth+1)
	case *types.Array:
		return typeMayHoldWriter(u.Elem(), depth+1)
	case *types.Struct:
		for i := 0; i < u.NumFields(); i++ {
			if typeMayHoldWriter(u.Field(i).Type(), depth+1) {
				return true
			}
		}
		return false
	}
	return true
}

func (c *Ctx) freshResults(st *State, sig *types.Signature, prefix string) *Val {
	res := sig.Results()
	switch res.Len() {
	case 0:
		return nil
	case 1:
		return c.havocVal(st, res.At(0).Type(), prefix)
	}
	parts := make([]*Val, res.Len())
	for i := range parts {
		parts[i] = c.havocVal(st, res.At(i).Type(), fmt.Sprintf("%s.r%d", prefix, i))
	}
	return makeTuple(res, parts)
}

func (c *Ctx) havocClass(st *State, elem bool, t types.Type) {
	ss := leafSorts(t)
	tk := typeKey(t)
	for j, s := range ss {
		k := HKey{Elem: elem, T: tk, Leaf: j}
		st.heap[k] = Fresh("havoc."+k.String(), heapSort(elem, s))
	}
}

func (c *Ctx) havocReachable(st *State, t types.Type, seen map[string]bool, depth int) {
	k := typeKey(t)
	if seen[k] || depth > 6 {
		return
	}
	seen[k] = true
	switch u := t.Underlying().(type) {
	case *types.Pointer:
		c.havocClass(st, false, u.Elem())
		c.havocClass(st, true, u.Elem())
		c.havocReachable(st, u.Elem(), seen, depth+1)
	case *types.Slice:
		c.havocClass(st, true, u.Elem())
		c.havocReachable(st, u.Elem(), seen, depth+1)
	case *types.Struct:
		for i := 0; i < u.NumFields(); i++ {
			c.havocReachable(st, u.Field(i).Type(), seen, depth+1)
		}
	case *types.Array:
		c.havocReachable(st, u.Elem(), seen, depth+1)
	case *types.Interface:
		// unknown dynamic type: nothing typed is reachable statically; the
		// objects behind an interface are not modelled field-wise.
	}
}

func (c *Ctx) canInline(fn *ssa.Function) bool {
	if fn.Blocks == nil {
		return false
	}
	if len(c.stack) >= 12 {
		return false
	}
	for _, f := range c.stack {
		if f == fn {
			return false
		}
	}
	return true
}

func (c *Ctx) callFunction(fr *frame, st *State, fn *ssa.Function, bindings []*Val, args []*Val, call *ssa.CallCommon, pos token.Pos) *Val {
	name := fullName(fn)
	if fn.Name() == "init" && fn.Pkg != nil && fn.Signature.Recv() == nil && !strings.HasPrefix(fn.Pkg.Pkg.Path(), modulePath) {
		return nil // initialisers of dependencies are not modelled
	}
	if fn.Name() == "init" && fn.Pkg != nil && fn.Signature.Recv() == nil && c.W.failedInit[fn.Pkg.Pkg.Path()] {
		return nil
	}
	if fr != nil && fr.fc != nil && len(fr.fc.Asserts) > 0 {
		c.checkCallSite(fr, st, fn, args, pos)
	}
	if fr != nil && fr.fc != nil && len(fr.fc.AbstractCallees) > 0 {
		short := shortName(name)
		for _, a := range fr.fc.AbstractCallees {
			if a == fn.Name() || a == short || strings.HasSuffix(short, "."+a) {
				c.abstracted("call " + short + " (abstracted by the caller's contract)")
				return c.havocCall(st, fn.Signature, args, fn.Name(), false)
			}
		}
	}
	if r, ok := c.intrinsic(st, name, fn, args, pos); ok {
		return r
	}
	if c.W.initMode && strings.HasPrefix(fn.Name(), "init#") && fn.Blocks != nil {
		c.guardedInit(st, fn)
		return nil
	}
	fc := c.W.contracts[name]
	forceInline := false
	if fr != nil && fr.fc != nil {
		short := shortName(name)
		for _, a := range fr.fc.InlineCallees {
			if a == fn.Name() || a == short || strings.HasSuffix(short, "."+a) {
				forceInline = true
			}
		}
		// an inlined callee's own callees are inlined the same way
		if c.inlineDepth > 0 {
			for _, a := range c.inlineList {
				if a == fn.Name() || a == short || strings.HasSuffix(short, "."+a) {
					forceInline = true
				}
			}
		}
	}
	if fc != nil && (fc.hasSpec() || fc.Trusted) && !fc.Inline && !c.W.inlineAll && !forceInline {
		if fc.Trusted {
			c.abstracted("trusted contract " + shortName(name))
		}
		return c.applyContract(st, fc, fn, args, pos)
	}
	if c.canInline(fn) {
		if forceInline && fr != nil && fr.fc != nil && len(fr.fc.InlineCallees) > 0 {
			c.inlineList = fr.fc.InlineCallees
			c.inlineDepth++
			defer func() { c.inlineDepth-- }()
		} else if forceInline {
			c.inlineDepth++
			defer func() { c.inlineDepth-- }()
		}
		if fc != nil {
			// listed function: its own obligations are checked where it is
			// verified; here only its preconditions, then the body quietly.
			env := c.contractEnv(fn, st, args)
			for _, r := range fc.Requires {
				c.oblige(st, "pre("+shortName(name)+")", r.Text, pos, c.evalClause(env, r))
			}
			c.quiet++
			defer func() { c.quiet-- }()
		}
		return c.inlineCall(st, fn, bindings, args, pos)
	}
	c.abstracted("call " + shortName(name))
	return c.havocCall(st, fn.Signature, args, fn.Name(), pureExternals[name])
}

func (c *Ctx) inlineCall(st *State, fn *ssa.Function, bindings []*Val, args []*Val, pos token.Pos) *Val {
	name := fullName(fn)
	saved := st.regs
	savedDefers := st.defers
	st.regs = map[ssa.Value]*Val{}
	st.defers = nil
	c.stack = append(c.stack, fn)
	c.viaStack = append(c.viaStack, shortName(name))
	res, out := c.runFunction(st, fn, bindings, args)
	c.viaStack = c.viaStack[:len(c.viaStack)-1]
	c.stack = c.stack[:len(c.stack)-1]
	if out == nil {
		// callee never returns (all paths panic)
		st.pc = False
		st.regs = saved
		st.defers = savedDefers
		return nil
	}
	*st = *out
	st.regs = saved
	st.defers = savedDefers
	return res
}

// runFunction executes fn's body from state st (which it consumes) and
// returns the merged result and final state (nil if no path returns).
func (c *Ctx) runFunction(st *State, fn *ssa.Function, bindings []*Val, args []*Val) (*Val, *State) {
	fi := c.W.fnInfo(fn)
	fr := &frame{fn: fn, fi: fi, pending: map[*ssa.BasicBlock][]edgeState{}, fc: c.W.contracts[fullName(fn)]}
	for i, p := range fn.Params {
		st.regs[p] = args[i]
	}
	for i, fv := range fn.FreeVars {
		if i < len(bindings) {
			st.regs[fv] = bindings[i]
		}
	}
	fr.pending[fn.Blocks[0]] = []edgeState{{nil, st}}
	c.runNodes(fr, fi.top)
	if len(fr.rets) == 0 {
		return nil, nil
	}
	// merge returns
	var es []edgeState
	for _, r := range fr.rets {
		es = append(es, edgeState{nil, r.st})
	}
	nres := fn.Signature.Results().Len()
	var live []retState
	for _, r := range fr.rets {
		if !r.st.pc.IsFalse() {
			live = append(live, r)
		}
	}
	if len(live) == 0 {
		return nil, nil
	}
	var res []*Val
	if nres > 0 {
		res = append([]*Val(nil), live[len(live)-1].res...)
		for i := len(live) - 2; i >= 0; i-- {
			for j := range res {
				res[j] = iteVal(live[i].st.pc, live[i].res[j], res[j])
			}
		}
	}
	out := c.mergeStates(es)
	var rv *Val
	switch nres {
	case 0:
	case 1:
		rv = res[0]
	default:
		rv = makeTuple(fn.Signature.Results(), res)
	}
	return rv, out
}

func (c *Ctx) execInvoke(fr *frame, st *State, call *ssa.CallCommon, recv *Val, args []*Val, pos token.Pos) *Val {
	l := recv.leaves()
	c.oblige(st, "nil", c.W.srcText(pos, "invoke "+call.Method.Name()), pos, Neq(l[0], Const(32, 0)))
	// devirtualise when the dynamic type is known
	if l[0].IsConst() {
		if t := c.W.tagType(int(l[0].Val)); t != nil {
			ms := c.W.Prog.MethodSets.MethodSet(t)
			if sel := ms.Lookup(call.Method.Pkg(), call.Method.Name()); sel != nil {
				if m := c.W.Prog.MethodValue(sel); m != nil {
					rv := c.unbox(st, recv, t)
					return c.callFunction(fr, st, m, nil, append([]*Val{rv}, args...), call, pos)
				}
			}
		}
	}
	key := typeKey(call.Value.Type()) + "." + call.Method.Name()
	if r, ok := c.invokeIntrinsic(st, key, recv, args, call, pos); ok {
		return r
	}
	if c.W.pureIfaceMethods[key] {
		// observer methods of immutable-by-convention interfaces: a
		// deterministic function of receiver identity and arguments
		c.abstracted("pure interface call " + key + " (uninterpreted, deterministic)")
		var in []*Term
		in = append(in, l...)
		for _, a := range args {
			in = append(in, a.leaves()...)
		}
		res := call.Signature().Results()
		mk := func(i int, t types.Type) *Val {
			ss := leafSorts(t)
			out := make([]*Term, len(ss))
			for j, srt := range ss {
				out[j] = UF(fmt.Sprintf("%s#%d.%d", sanitize(key), i, j), srt, in...)
			}
			v := mkVal(t, out)
			if inv := c.typeInvariant(st, v); !inv.IsTrue() {
				c.assume(st.pc, inv)
			}
			return v
		}
		var out *Val
		switch res.Len() {
		case 0:
			return nil
		case 1:
			out = mk(0, res.At(0).Type())
		default:
			parts := make([]*Val, res.Len())
			for i := range parts {
				parts[i] = mk(i, res.At(i).Type())
			}
			out = makeTuple(res, parts)
		}
		// for the standard image types the observer is the real method:
		// tag == T  ==>  result == T.method(receiver)
		if res.Len() == 1 && len(args) == 0 {
			for _, tn := range [][2]string{{"image", "NRGBA"}, {"image", "RGBA"}, {"image", "YCbCr"}} {
				sp := c.W.Pkgs[tn[0]]
				if sp == nil {
					continue
				}
				tm, ok := sp.Members[tn[1]].(*ssa.Type)
				if !ok {
					continue
				}
				pt := types.NewPointer(tm.Type())
				sel := c.W.Prog.MethodSets.MethodSet(pt).Lookup(call.Method.Pkg(), call.Method.Name())
				if sel == nil {
					continue
				}
				m := c.W.Prog.MethodValue(sel)
				if m == nil || m.Blocks == nil || !c.canInline(m) {
					continue
				}
				tag := Const(32, uint64(c.W.typeTag(pt)))
				guard := And(Eq(l[0], tag), Neq(l[1], Const(32, 0)))
				if guard.IsFalse() {
					continue
				}
				tmp := st.clone()
				tmp.pc = And(st.pc, guard)
				c.quiet++
				n := len(c.assumes)
				rv := c.inlineCall(tmp, m, nil, []*Val{mkVal(pt, []*Term{l[1]})}, pos)
				c.quiet--
				c.assumes = c.assumes[:n]
				if rv != nil && rv.L != nil && len(rv.L) == len(out.L) {
					c.assume(st.pc, Implies(guard, eqVal(out, rv)))
				}
			}
		}
		return out
	}
	c.abstracted("interface call " + key)
	return c.havocCall(st, call.Signature(), args, call.Method.Name(), false)
}

// ---- builtins ----

func (c *Ctx) execBuiltin(st *State, b *ssa.Builtin, call *ssa.CallCommon, args []*Val, pos token.Pos) *Val {
	sig := call.Signature()
	var resT types.Type
	if sig.Results().Len() == 1 {
		resT = sig.Results().At(0).Type()
	}
	switch b.Name() {
	case "len":
		a := args[0]
		switch u := a.Typ.Underlying().(type) {
		case *types.Slice:
			return intVal(resT, a.leaves()[2])
		case *types.Array:
			return intVal(resT, Const(IntW, uint64(u.Len())))
		case *types.Pointer:
			return intVal(resT, Const(IntW, uint64(u.Elem().Underlying().(*types.Array).Len())))
		case *types.Basic:
			return intVal(resT, a.leaves()[1])
		case *types.Map, *types.Chan:
			v := c.havocVal(st, resT, "maplen")
			c.assume(st.pc, SLe(Const(64, 0), v.T()))
			return v
		}
	case "cap":
		a := args[0]
		switch u := a.Typ.Underlying().(type) {
		case *types.Slice:
			return intVal(resT, a.leaves()[3])
		case *types.Array:
			return intVal(resT, Const(IntW, uint64(u.Len())))
		}
	case "append":
		return c.builtinAppend(st, args, call, pos)
	case "copy":
		return c.builtinCopy(st, args, resT)
	case "min", "max":
		w, signed, ok := isIntType(resT)
		if !ok {
			if fw, ok := isFloatType(resT); ok {
				r := args[0].T()
				for _, a := range args[1:] {
					r = UF(fmt.Sprintf("f%s%d", b.Name(), fw), BV(fw), r, a.T())
				}
				return &Val{Typ: resT, L: []*Term{r}}
			}
			unsup("min/max on %s", resT)
		}
		_ = w
		r := args[0].T()
		for _, a := range args[1:] {
			y := a.T()
			var lt *Term
			if signed {
				lt = SLt(y, r)
			} else {
				lt = ULt(y, r)
			}
			if b.Name() == "min" {
				r = Ite(lt, y, r)
			} else {
				r = Ite(lt, r, y)
			}
		}
		return intVal(resT, r)
	case "clear":
		a := args[0]
		if sl, ok := a.Typ.Underlying().(*types.Slice); ok {
			c.fillSlice(st, a, sl.Elem(), nil)
			return nil
		}
		c.abstracted("clear(map)")
		return nil
	case "print", "println":
		return nil
	case "ssa:wrapnilchk":
		c.oblige(st, "nil", "wrapnilchk", pos, Neq(args[0].leaves()[0], Const(32, 0)))
		return args[0]
	case "ssa:deferstack":
		return mkVal(resT, []*Term{Const(32, 0)})
	case "delete":
		c.abstracted("delete(map)")
		return nil
	case "recover":
		return zeroVal(resT)
	}
	unsup("builtin %s", b.Name())
	return nil
}

// fillSlice sets every element of slice a (s[0:len]) to zero, or havocs the
// range when zero is nil-typed.
func (c *Ctx) fillSlice(st *State, a *Val, et types.Type, _ *Val) {
	l := a.leaves()
	base, off, ln := l[0], l[1], l[2]
	ss := leafSorts(et)
	tk := typeKey(et)
	for j, s := range ss {
		k := HKey{Elem: true, T: tk, Leaf: j}
		h := c.heapGet(st, k, heapSort(true, s))
		old := Select(h, base)
		i := BoundVar("i", BV(64))
		in := And(ULe(off, i), ULt(i, Add(off, ln)))
		na := Lambda(i, Ite(in, zeroOfSort(s), Select(old, i)))
		st.heap[k] = Store(h, base, na)
	}
}

func (c *Ctx) builtinAppend(st *State, args []*Val, call *ssa.CallCommon, pos token.Pos) *Val {
	s := args[0]
	more := args[1]
	sl, ok := s.Typ.Underlying().(*types.Slice)
	if !ok {
		unsup("append on %s", s.Typ)
	}
	et := sl.Elem()
	l := s.leaves()
	base, off, ln := l[0], l[1], l[2]
	var ml []*Term
	if isStringType(more.Typ) {
		c.abstracted("append(bytes, string...)")
		ml = []*Term{Const(32, 0), Const(64, 0), more.L[1], more.L[1]}
	} else {
		ml = more.leaves()
	}
	mbase, moff, mlen := ml[0], ml[1], ml[2]
	newLen := Add(ln, mlen)
	// Model: the result has a fresh backing array holding the old elements
	// followed by the appended ones. (In-place growth is not modelled: the
	// result never aliases the argument; stated in the assumptions.)
	nref := c.newRef(st)
	ncap := Fresh("appendcap", BV(64))
	c.assume(st.pc, And(SLe(newLen, ncap), SLe(ncap, Const(64, 1<<48))))
	ss := leafSorts(et)
	tk := typeKey(et)
	// is "more" a short literal region (constant length)?
	for j, sj := range ss {
		k := HKey{Elem: true, T: tk, Leaf: j}
		h := c.heapGet(st, k, heapSort(true, sj))
		oldA := Select(h, base)
		srcA := Select(h, mbase)
		var na *Term
		// The fresh backing array is modelled as the old array's contents at
		// the same offset (indices outside [off, off+newLen) are unobservable),
		// so the old elements are preserved by construction.
		base0 := Add(off, ln)
		if mlen.IsConst() && mlen.Val <= 64 {
			na = oldA
			for e := uint64(0); e < mlen.Val; e++ {
				na = Store(na, Add(base0, Const(64, e)), Select(srcA, Add(moff, Const(64, e))))
			}
		} else {
			i := BoundVar("i", BV(64))
			inNew := And(ULe(base0, i), ULt(i, Add(base0, mlen)))
			na = Lambda(i, Ite(inNew, Select(srcA, Add(moff, Sub(i, base0))), Select(oldA, i)))
		}
		st.heap[k] = Store(h, nref, na)
	}
	if len(ss) == 0 {
		// zero-size elements
	}
	return mkVal(s.Typ, []*Term{nref, off, newLen, ncap})
}

func (c *Ctx) builtinCopy(st *State, args []*Val, resT types.Type) *Val {
	d, s := args[0], args[1]
	dl := d.leaves()
	var sl []*Term
	sliceT, ok := d.Typ.Underlying().(*types.Slice)
	if !ok {
		unsup("copy to %s", d.Typ)
	}
	et := sliceT.Elem()
	fromString := isStringType(s.Typ)
	if fromString {
		sl = []*Term{Const(32, 0), Const(64, 0), s.L[1], s.L[1]}
	} else {
		sl = s.leaves()
	}
	n := Ite(SLt(sl[2], dl[2]), sl[2], dl[2])
	ss := leafSorts(et)
	tk := typeKey(et)
	for j, sj := range ss {
		k := HKey{Elem: true, T: tk, Leaf: j}
		h := c.heapGet(st, k, heapSort(true, sj))
		dstA := Select(h, dl[0])
		var srcA *Term
		if fromString {
			srcA = Fresh("strbytes", dstA.S)
		} else {
			srcA = Select(h, sl[0])
		}
		var na *Term
		if n.IsConst() && n.Val <= 64 {
			na = dstA
			for e := uint64(0); e < n.Val; e++ {
				na = Store(na, Add(dl[1], Const(64, e)), Select(srcA, Add(sl[1], Const(64, e))))
			}
		} else {
			i := BoundVar("i", BV(64))
			in := And(ULe(dl[1], i), ULt(i, Add(dl[1], n)))
			na = Lambda(i, Ite(in, Select(srcA, Add(sl[1], Sub(i, dl[1]))), Select(dstA, i)))
		}
		st.heap[k] = Store(h, dl[0], na)
	}
	return intVal(resT, n)
}

// ---- intrinsics for well-known library functions ----

func lenBits(x *Term) *Term {
	// number of bits needed to represent x (bits.Len)
	w := x.S.W
	r := Const(w, 0)
	for i := 0; i < w; i++ {
		bit := Neq(Extract(i, i, x), Const(1, 0))
		r = Ite(bit, Const(w, uint64(i+1)), r)
	}
	return r
}

func (c *Ctx) intrinsic(st *State, name string, fn *ssa.Function, args []*Val, pos token.Pos) (*Val, bool) {
	res := fn.Signature.Results()
	switch name {
	case "errors.New", "fmt.Errorf":
		if c.W.initMode {
			// package-level sentinel errors: distinct non-nil constants
			ref := c.newRef(st)
			return mkVal(res.At(0).Type(), []*Term{Const(32, uint64(c.W.typeTagByName("*errors.errorString"))), ref}), true
		}
		v := c.havocVal(st, res.At(0).Type(), "err")
		c.assume(st.pc, Neq(v.L[0], Const(32, 0)))
		return v, true
	case "fmt.Sprintf", "fmt.Sprint", "fmt.Sprintln", "strconv.Itoa":
		return c.havocVal(st, res.At(0).Type(), "str"), true
	case "errors.Is":
		return boolVal(Fresh("errorsIs", BoolSort)), true
	case "math/bits.Len32", "math/bits.Len64", "math/bits.Len", "math/bits.Len16", "math/bits.Len8":
		x := args[0].T()
		return intVal(res.At(0).Type(), convW(lenBits(x), IntW)), true
	case "math/bits.LeadingZeros32", "math/bits.LeadingZeros64":
		x := args[0].T()
		w := x.S.W
		return intVal(res.At(0).Type(), Sub(Const(IntW, uint64(w)), convW(lenBits(x), IntW))), true
	case "math/bits.TrailingZeros32", "math/bits.TrailingZeros64", "math/bits.TrailingZeros":
		x := args[0].T()
		w := x.S.W
		r := Const(IntW, uint64(w))
		for i := w - 1; i >= 0; i-- {
			bit := Neq(Extract(i, i, x), Const(1, 0))
			r = Ite(bit, Const(IntW, uint64(i)), r)
		}
		return intVal(res.At(0).Type(), r), true
	case "math/bits.ReverseBytes64", "math/bits.ReverseBytes32", "math/bits.ReverseBytes16":
		x := args[0].T()
		w := x.S.W
		var r *Term
		for i := 0; i < w/8; i++ {
			b := Extract(8*i+7, 8*i, x)
			if r == nil {
				r = b
			} else {
				r = Concat(r, b)
			}
		}
		return intVal(res.At(0).Type(), r), true
	case "runtime.GOMAXPROCS", "runtime.NumCPU":
		v := c.havocVal(st, res.At(0).Type(), "gomaxprocs")
		c.assume(st.pc, And(SLe(Const(IntW, 1), v.T()), SLe(v.T(), Const(IntW, 1<<16))))
		return v, true
	case "math.IsNaN", "math.IsInf", "math.Float64bits", "math.Float32bits", "math.Float64frombits", "math.Float32frombits",
		"math.Sqrt", "math.Floor", "math.Ceil", "math.Abs", "math.Pow", "math.Log", "math.Log2", "math.Exp", "math.Round", "math.Log10", "math.Trunc", "math.Max", "math.Min", "math.Inf", "math.NaN", "math.Mod", "math.Cbrt", "math.Exp2":
		var ts []*Term
		for _, a := range args {
			ts = append(ts, a.T())
		}
		rt := res.At(0).Type()
		return mkVal(rt, []*Term{UF(sanitize(name), leafSorts(rt)[0], ts...)}), true
	case "bytes.Equal":
		a, b := args[0].leaves(), args[1].leaves()
		k := HKey{Elem: true, T: "uint8", Leaf: 0}
		h := c.heapGet(st, k, heapSort(true, BV(8)))
		i := BoundVar("i", BV(64))
		same := Forall([]*Term{i}, Implies(ULt(i, a[2]), Eq(Select(Select(h, a[0]), Add(a[1], i)), Select(Select(h, b[0]), Add(b[1], i)))))
		return boolVal(And(Eq(a[2], b[2]), same)), true
	case "sync.(*Mutex).Lock", "sync.(*Mutex).Unlock", "sync.Mutex.Lock", "sync.Mutex.Unlock", "sync.(*WaitGroup).Add", "sync.(*WaitGroup).Done", "sync.(*WaitGroup).Wait",
		"sync.WaitGroup.Add", "sync.WaitGroup.Done", "sync.WaitGroup.Wait", "sync.RWMutex.RLock", "sync.RWMutex.RUnlock", "sync.RWMutex.Lock", "sync.RWMutex.Unlock", "sync.Once.Do":
		if name == "sync.Once.Do" {
			return nil, false
		}
		c.abstracted("sync primitive " + name)
		return nil, true
	case "sync.Pool.Get":
		c.abstracted("sync.Pool.Get")
		v := c.havocVal(st, res.At(0).Type(), "poolget")
		// a pool only returns what was Put into it (or nil): the dynamic
		// types come from a scan of every Put on the same pool variable
		if tags, ok := c.W.poolTypes(fn, args); ok {
			var alts []*Term
			alts = append(alts, Eq(v.L[0], Const(32, 0)))
			for _, t := range tags {
				alts = append(alts, And(Eq(v.L[0], Const(32, uint64(t))), Neq(v.L[1], Const(32, 0))))
			}
			c.assume(st.pc, Or(alts...))
		}
		return v, true
	case "sync.Pool.Put":
		c.abstracted("sync.Pool.Put")
		return nil, true
	}
	return nil, false
}

func convW(t *Term, w int) *Term {
	if t.S.W == w {
		return t
	}
	if t.S.W < w {
		return ZExt(t, w)
	}
	return Extract(w-1, 0, t)
}

func (c *Ctx) invokeIntrinsic(st *State, key string, recv *Val, args []*Val, call *ssa.CallCommon, pos token.Pos) (*Val, bool) {
	switch key {
	case "error.Error":
		return c.havocVal(st, call.Signature().Results().At(0).Type(), "errstr"), true
	case "io.Writer.Write":
		return c.writerWrite(st, recv, args[0], call), true
	}
	return nil, false
}

// writerWrite models io.Writer.Write with a ghost byte log per writer value:
// either the whole slice is appended and (len(p), nil) returned, or an error
// is returned (and the log becomes unconstrained).
func (c *Ctx) writerWrite(st *State, recv *Val, p *Val, call *ssa.CallCommon) *Val {
	res := call.Signature().Results()
	if st.ghost == nil {
		st.ghost = map[string]*Val{}
	}
	l := p.leaves()
	okv := Fresh("writeok", BoolSort)
	g := c.ghostLog(st)
	logArr, logLen := g.L[0], g.L[1]
	k := HKey{Elem: true, T: "uint8", Leaf: 0}
	h := c.heapGet(st, k, heapSort(true, BV(8)))
	src := Select(h, l[0])
	n := l[2]
	var na *Term
	if n.IsConst() && n.Val <= 64 {
		na = logArr
		for e := uint64(0); e < n.Val; e++ {
			na = Store(na, Add(logLen, Const(64, e)), Select(src, Add(l[1], Const(64, e))))
		}
	} else {
		i := BoundVar("i", BV(64))
		in := And(ULe(logLen, i), ULt(i, Add(logLen, n)))
		na = Lambda(i, Ite(in, Select(src, Add(l[1], Sub(i, logLen))), Select(logArr, i)))
	}
	c.assume(st.pc, ULt(logLen, Const(64, 1<<50)))
	// a failed Write may have written a prefix: the log stays append-only
	failed := c.appendedLog(st, g)
	newLog := &Val{Typ: g.Typ, L: []*Term{Ite(okv, na, failed.L[0]), Ite(okv, Add(logLen, n), failed.L[1])}}
	st.ghost["wlog"] = newLog
	errv := c.havocVal(st, res.At(1).Type(), "werr")
	c.assume(st.pc, Eq(okv, Eq(errv.L[0], Const(32, 0))))
	nv := intVal(res.At(0).Type(), Ite(okv, n, Fresh("wn", BV(64))))
	return makeTuple(res, []*Val{nv, errv})
}

func (c *Ctx) ghostLog(st *State) *Val {
	if st.ghost == nil {
		st.ghost = map[string]*Val{}
	}
	if g, ok := st.ghost["wlog"]; ok {
		return g
	}
	g := &Val{Typ: types.Typ[types.Invalid], L: []*Term{Var("wlog0", ArrSort(BV(64), BV(8))), Var("wlen0", BV(64))}}
	c.assume(True, And(SLe(Const(64, 0), g.L[1]), SLe(g.L[1], Const(64, 1<<40)), ULe(g.L[1], Const(64, 1<<40))))
	st.ghost["wlog"] = g
	return g
}

// guardedInit runs a user-written init function; when it cannot be executed
// symbolically only the globals it may write become unknown.
func (c *Ctx) guardedInit(st *State, fn *ssa.Function) {
	backup := st.clone()
	nAssume := len(c.assumes)
	savedStack := append([]*ssa.Function(nil), c.stack...)
	savedVia := append([]string(nil), c.viaStack...)
	ok := func() (ok bool) {
		defer func() {
			if r := recover(); r != nil {
				if u, isU := r.(unsupported); isU {
					c.W.initNotes = append(c.W.initNotes, fmt.Sprintf("%s not executed: %s", shortName(fullName(fn)), u.msg))
					ok = false
					return
				}
				panic(r)
			}
		}()
		c.started = time.Now()
		c.unrolled = 0
		c.steps = 0
		c.inlineCall(st, fn, nil, nil, token.NoPos)
		return true
	}()
	c.steps = 0
	if os.Getenv("GOVC_VERBOSE") != "" {
		fmt.Fprintf(os.Stderr, "    %s: %.1fs ok=%v unrolled=%d\n", shortName(fullName(fn)), time.Since(c.started).Seconds(), ok, c.unrolled)
	}
	if ok {
		return
	}
	c.stack = savedStack
	c.viaStack = savedVia
	c.assumes = c.assumes[:nAssume]
	*st = *backup
	ms := &modSet{}
	seen := map[*ssa.Function]bool{fn: true}
	c.W.scanBlocks(fn.Blocks, ms, seen, 0)
	for _, anon := range fn.AnonFuncs {
		c.W.scanBlocks(anon.Blocks, ms, seen, 0)
	}
	for _, s := range ms.stores {
		g := s.global
		if g == nil {
			g = s.viaGlob
		}
		if g != nil {
			c.W.unknownGlobal[g] = true
		}
	}
	if ms.opaque {
		// conservatively: every global of the package
		for _, m := range fn.Pkg.Members {
			if g, isG := m.(*ssa.Global); isG {
				c.W.unknownGlobal[g] = true
			}
		}
	}
}

// checkCallSite evaluates the `callsite G: assert P` clauses of the function
// being executed at a call to G. P sees G's parameter names bound to the
// actual arguments, and the caller's parameters and local variables.
func (c *Ctx) checkCallSite(fr *frame, st *State, callee *ssa.Function, args []*Val, pos token.Pos) {
	full := fullName(callee)
	short := shortName(full)
	for _, cs := range fr.fc.Asserts {
		if !(cs.Callee == callee.Name() || cs.Callee == short || strings.HasSuffix(short, "."+cs.Callee)) {
			continue
		}
		if fr.callCount == nil {
			fr.callCount = map[string]int{}
		}
		k := cs.Callee + "|" + cs.C.Text
		occ := fr.callCount[k]
		fr.callCount[k] = occ + 1
		if cs.Occ >= 0 && cs.Occ != occ {
			continue
		}
		env := c.specEnv(fr, st)
		env.lookup = c.localLookup(fr, st, token.NoPos)
		for name, v := range fr.entryVars {
			env.vars[name] = v
		}
		if fr.entry != nil {
			env.old = fr.entry
			oe := c.specEnv(fr, fr.entry)
			oe.vars = fr.entryVars
			env.oldEnv = oe
		}
		for i, p := range callee.Params {
			if i < len(args) && p.Name() != "" && p.Name() != "_" {
				// the caller's own variables take precedence over the callee's
				// parameter names (use argN for the arguments in that case)
				_, isParam := fr.entryVars[p.Name()]
				if !isParam && env.lookup(p.Name()) == nil {
					env.vars[p.Name()] = args[i]
				}
			}
			if i < len(args) {
				env.vars[fmt.Sprintf("arg%d", i)] = args[i]
			}
		}
		cond := c.evalClause(env, cs.C)
		c.oblige(st, "callsite", cs.Callee+":"+cs.C.Text, pos, cond)
	}
}
