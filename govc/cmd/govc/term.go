package main

// Term DAG: hash-consed SMT terms over Bool, fixed-width bit-vectors and
// arrays, with local simplification and an SMT-LIB2 printer.

import (
	"regexp"
	"fmt"
	"math/bits"
	"sort"
	"strings"
)

type SortKind int

const (
	SBool SortKind = iota
	SBV
	SArray
)

type Sort struct {
	Kind SortKind
	W    int   // SBV
	Idx  *Sort // SArray
	Elem *Sort // SArray
	str  string
}

var sortTab = map[string]*Sort{}

func internSort(s *Sort) *Sort {
	if o, ok := sortTab[s.str]; ok {
		return o
	}
	sortTab[s.str] = s
	return s
}

var BoolSort = internSort(&Sort{Kind: SBool, str: "Bool"})

func BV(w int) *Sort {
	return internSort(&Sort{Kind: SBV, W: w, str: fmt.Sprintf("(_ BitVec %d)", w)})
}

func ArrSort(idx, elem *Sort) *Sort {
	return internSort(&Sort{Kind: SArray, Idx: idx, Elem: elem, str: "(Array " + idx.str + " " + elem.str + ")"})
}

func (s *Sort) String() string { return s.str }

var (
	RefSort = BV(32)
	BV64    = BV(64)
	BV8     = BV(8)
)

type Term struct {
	Op    string // "const","var","bound", smt ops, "extract","zext","sext","constarr","forall","exists"
	S     *Sort
	Args  []*Term
	Val   uint64 // const (W<=64); bool const: 0/1
	Name  string // var / bound
	P1    int    // extract hi / ext amount
	P2    int    // extract lo
	Bound []*Term
	Pats  [][]*Term
	id    int
	hasB  bool // contains a free bound variable
	fv    []*Term
}

var termTab = map[string]*Term{}
var termCount int

func mk(t *Term) *Term {
	var sb strings.Builder
	sb.WriteString(t.Op)
	sb.WriteByte('|')
	sb.WriteString(t.S.str)
	sb.WriteByte('|')
	switch t.Op {
	case "const":
		fmt.Fprintf(&sb, "%d", t.Val)
	case "var", "bound", "uf":
		sb.WriteString(t.Name)
	case "extract", "zext", "sext":
		fmt.Fprintf(&sb, "%d,%d", t.P1, t.P2)
	}
	for _, a := range t.Args {
		fmt.Fprintf(&sb, ",%d", a.id)
	}
	for _, b := range t.Bound {
		fmt.Fprintf(&sb, ";%d", b.id)
	}
	for _, p := range t.Pats {
		sb.WriteString("#")
		for _, q := range p {
			fmt.Fprintf(&sb, ",%d", q.id)
		}
	}
	k := sb.String()
	if o, ok := termTab[k]; ok {
		return o
	}
	termCount++
	t.id = termCount
	// free bound variables (a closed term can be named with define-fun and
	// shared; a term with a free bound variable must be printed inline)
	if t.Op == "bound" {
		t.fv = []*Term{t}
	}
	for _, a := range t.Args {
		t.fv = unionFV(t.fv, a.fv)
	}
	for _, pat := range t.Pats {
		for _, x := range pat {
			t.fv = unionFV(t.fv, x.fv)
		}
	}
	if t.Op == "forall" || t.Op == "exists" || t.Op == "lambda" {
		var rest []*Term
		for _, v := range t.fv {
			bound := false
			for _, b := range t.Bound {
				if b == v {
					bound = true
				}
			}
			if !bound {
				rest = append(rest, v)
			}
		}
		t.fv = rest
	}
	t.hasB = len(t.fv) > 0
	termTab[k] = t
	return t
}

func unionFV(a, b []*Term) []*Term {
	if len(b) == 0 {
		return a
	}
	if len(a) == 0 {
		return b
	}
	out := make([]*Term, 0, len(a)+len(b))
	i, j := 0, 0
	for i < len(a) && j < len(b) {
		switch {
		case a[i].id == b[j].id:
			out = append(out, a[i])
			i++
			j++
		case a[i].id < b[j].id:
			out = append(out, a[i])
			i++
		default:
			out = append(out, b[j])
			j++
		}
	}
	out = append(out, a[i:]...)
	out = append(out, b[j:]...)
	return out
}

func mask(w int) uint64 {
	if w >= 64 {
		return ^uint64(0)
	}
	return (uint64(1) << uint(w)) - 1
}

var True = mk(&Term{Op: "const", S: BoolSort, Val: 1})
var False = mk(&Term{Op: "const", S: BoolSort, Val: 0})

func BoolConst(b bool) *Term {
	if b {
		return True
	}
	return False
}

func Const(w int, v uint64) *Term {
	if w > 64 {
		// build by concatenation of zero high part
		return Concat(Const(w-64, 0), Const(64, v))
	}
	return mk(&Term{Op: "const", S: BV(w), Val: v & mask(w)})
}

func Var(name string, s *Sort) *Term { return mk(&Term{Op: "var", S: s, Name: name}) }

var freshCtr int

func Fresh(prefix string, s *Sort) *Term {
	freshCtr++
	return Var(fmt.Sprintf("%s!%d", sanitize(prefix), freshCtr), s)
}

func sanitize(s string) string {
	var sb strings.Builder
	for _, r := range s {
		if (r >= 'a' && r <= 'z') || (r >= 'A' && r <= 'Z') || (r >= '0' && r <= '9') || r == '_' || r == '.' || r == '!' {
			sb.WriteRune(r)
		} else {
			sb.WriteByte('_')
		}
	}
	return sb.String()
}

func BoundVar(name string, s *Sort) *Term {
	freshCtr++
	return mk(&Term{Op: "bound", S: s, Name: fmt.Sprintf("%s!b%d", sanitize(name), freshCtr)})
}

func (t *Term) IsConst() bool { return t.Op == "const" }
func (t *Term) IsTrue() bool  { return t == True }
func (t *Term) IsFalse() bool { return t == False }

func sext64(v uint64, w int) int64 {
	if w >= 64 {
		return int64(v)
	}
	if v&(uint64(1)<<uint(w-1)) != 0 {
		return int64(v | ^mask(w))
	}
	return int64(v)
}

// ---- boolean ----

func Not(a *Term) *Term {
	if a.IsConst() {
		return BoolConst(a.Val == 0)
	}
	if a.Op == "not" {
		return a.Args[0]
	}
	return mk(&Term{Op: "not", S: BoolSort, Args: []*Term{a}})
}

func And(as ...*Term) *Term {
	var out []*Term
	seen := map[int]bool{}
	for _, a := range as {
		if a.IsFalse() {
			return False
		}
		if a.IsTrue() {
			continue
		}
		if a.Op == "and" {
			for _, b := range a.Args {
				if !seen[b.id] {
					seen[b.id] = true
					out = append(out, b)
				}
			}
			continue
		}
		if !seen[a.id] {
			seen[a.id] = true
			out = append(out, a)
		}
	}
	for _, a := range out {
		if a.Op == "not" && seen[a.Args[0].id] {
			return False
		}
	}
	if len(out) == 0 {
		return True
	}
	if len(out) == 1 {
		return out[0]
	}
	return mk(&Term{Op: "and", S: BoolSort, Args: out})
}

func Or(as ...*Term) *Term {
	var out []*Term
	seen := map[int]bool{}
	for _, a := range as {
		if a.IsTrue() {
			return True
		}
		if a.IsFalse() {
			continue
		}
		if a.Op == "or" {
			for _, b := range a.Args {
				if !seen[b.id] {
					seen[b.id] = true
					out = append(out, b)
				}
			}
			continue
		}
		if !seen[a.id] {
			seen[a.id] = true
			out = append(out, a)
		}
	}
	for _, a := range out {
		if a.Op == "not" && seen[a.Args[0].id] {
			return True
		}
	}
	if len(out) == 0 {
		return False
	}
	if len(out) == 1 {
		return out[0]
	}
	return mk(&Term{Op: "or", S: BoolSort, Args: out})
}

func Implies(a, b *Term) *Term { return Or(Not(a), b) }

func Ite(c, a, b *Term) *Term {
	if c.IsTrue() {
		return a
	}
	if c.IsFalse() {
		return b
	}
	if a == b {
		return a
	}
	if a.S != b.S {
		panic(fmt.Sprintf("ite sort mismatch %s vs %s", a.S, b.S))
	}
	if a.S == BoolSort {
		if a.IsTrue() && b.IsFalse() {
			return c
		}
		if a.IsFalse() && b.IsTrue() {
			return Not(c)
		}
		if a.IsTrue() {
			return Or(c, b)
		}
		if a.IsFalse() {
			return And(Not(c), b)
		}
		if b.IsTrue() {
			return Or(Not(c), a)
		}
		if b.IsFalse() {
			return And(c, a)
		}
	}
	if a.S.Kind == SArray {
		// keep array terms free of ite: merge at the element that differs
		if a.Op == "store" && a.Args[0] == b {
			return Store(b, a.Args[1], Ite(c, a.Args[2], Select(b, a.Args[1])))
		}
		if b.Op == "store" && b.Args[0] == a {
			return Store(a, b.Args[1], Ite(c, Select(a, b.Args[1]), b.Args[2]))
		}
		if a.Op == "store" && b.Op == "store" && a.Args[0] == b.Args[0] && a.Args[1] == b.Args[1] {
			return Store(a.Args[0], a.Args[1], Ite(c, a.Args[2], b.Args[2]))
		}
	}
	// ite(c, x, ite(c, y, z)) = ite(c, x, z)
	if b.Op == "ite" && b.Args[0] == c {
		return Ite(c, a, b.Args[2])
	}
	if a.Op == "ite" && a.Args[0] == c {
		return Ite(c, a.Args[1], b)
	}
	return mk(&Term{Op: "ite", S: a.S, Args: []*Term{c, a, b}})
}

func Eq(a, b *Term) *Term {
	if a == b {
		return True
	}
	if a.S != b.S {
		panic(fmt.Sprintf("eq sort mismatch %s vs %s (%s, %s)", a.S, b.S, a.Op, b.Op))
	}
	if a.IsConst() && b.IsConst() {
		return BoolConst(a.Val == b.Val)
	}
	if a.S == BoolSort {
		if a.IsConst() {
			a, b = b, a
		}
		if b.IsTrue() {
			return a
		}
		if b.IsFalse() {
			return Not(a)
		}
	}
	// ite(c, k1, k2) == k  with constants
	if b.IsConst() && a.Op == "ite" && a.Args[1].IsConst() && a.Args[2].IsConst() {
		return Ite(a.Args[0], Eq(a.Args[1], b), Eq(a.Args[2], b))
	}
	if a.IsConst() && b.Op == "ite" && b.Args[1].IsConst() && b.Args[2].IsConst() {
		return Ite(b.Args[0], Eq(b.Args[1], a), Eq(b.Args[2], a))
	}
	if a.id > b.id {
		a, b = b, a
	}
	return mk(&Term{Op: "=", S: BoolSort, Args: []*Term{a, b}})
}

func Neq(a, b *Term) *Term { return Not(Eq(a, b)) }

// ---- bit-vectors ----

func bvbin(op string, a, b *Term) *Term {
	if a.S != b.S {
		panic(fmt.Sprintf("%s sort mismatch %s vs %s", op, a.S, b.S))
	}
	w := a.S.W
	if a.IsConst() && b.IsConst() && w <= 64 {
		x, y := a.Val, b.Val
		var r uint64
		ok := true
		switch op {
		case "bvadd":
			r = x + y
		case "bvsub":
			r = x - y
		case "bvmul":
			r = x * y
		case "bvand":
			r = x & y
		case "bvor":
			r = x | y
		case "bvxor":
			r = x ^ y
		case "bvudiv":
			if y == 0 {
				r = mask(w)
			} else {
				r = x / y
			}
		case "bvurem":
			if y == 0 {
				r = x
			} else {
				r = x % y
			}
		case "bvsdiv":
			sx, sy := sext64(x, w), sext64(y, w)
			if sy == 0 {
				if sx < 0 {
					r = 1
				} else {
					r = mask(w)
				}
			} else if sy == -1 {
				r = uint64(-sx)
			} else {
				r = uint64(sx / sy)
			}
		case "bvsrem":
			sx, sy := sext64(x, w), sext64(y, w)
			if sy == 0 {
				r = x
			} else if sy == -1 {
				r = 0
			} else {
				r = uint64(sx % sy)
			}
		case "bvshl":
			if y >= uint64(w) {
				r = 0
			} else {
				r = x << y
			}
		case "bvlshr":
			if y >= uint64(w) {
				r = 0
			} else {
				r = x >> y
			}
		case "bvashr":
			sx := sext64(x, w)
			if y >= uint64(w) {
				if sx < 0 {
					r = mask(w)
				} else {
					r = 0
				}
			} else {
				r = uint64(sx >> y)
			}
		default:
			ok = false
		}
		if ok {
			return Const(w, r)
		}
	}
	// identities
	switch op {
	case "bvadd":
		if a.IsConst() && !b.IsConst() {
			a, b = b, a
		}
		if b.IsConst() && b.Val == 0 {
			return a
		}
		// (x + c1) + c2
		if b.IsConst() && a.Op == "bvadd" && a.Args[1].IsConst() {
			return bvbin("bvadd", a.Args[0], bvbin("bvadd", a.Args[1], b))
		}
		// x + (y - x) = y ; (y - x) + x = y
		if b.Op == "bvsub" && b.Args[1] == a {
			return b.Args[0]
		}
		if a.Op == "bvsub" && a.Args[1] == b {
			return a.Args[0]
		}
	case "bvsub":
		if b.IsConst() && b.Val == 0 {
			return a
		}
		if a == b {
			return Const(w, 0)
		}
		if b.IsConst() && w <= 64 {
			return bvbin("bvadd", a, Const(w, -b.Val))
		}
		// (x + y) - x = y ; (x + y) - y = x
		if a.Op == "bvadd" {
			if a.Args[0] == b {
				return a.Args[1]
			}
			if a.Args[1] == b {
				return a.Args[0]
			}
		}
	case "bvmul":
		if a.IsConst() && !b.IsConst() {
			a, b = b, a
		}
		if b.IsConst() {
			if b.Val == 0 {
				return b
			}
			if b.Val == 1 {
				return a
			}
		}
	case "bvand":
		if a.IsConst() && !b.IsConst() {
			a, b = b, a
		}
		if b.IsConst() && w <= 64 {
			if b.Val == 0 {
				return b
			}
			if b.Val == mask(w) {
				return a
			}
		}
		if a == b {
			return a
		}
	case "bvor", "bvxor":
		if a.IsConst() && !b.IsConst() {
			a, b = b, a
		}
		if b.IsConst() && b.Val == 0 && w <= 64 {
			return a
		}
		if a == b {
			if op == "bvor" {
				return a
			}
			return Const(w, 0)
		}
	case "bvshl", "bvlshr", "bvashr":
		if b.IsConst() && b.Val == 0 {
			return a
		}
	}
	return mk(&Term{Op: op, S: a.S, Args: []*Term{a, b}})
}

func Add(a, b *Term) *Term  { return bvbin("bvadd", a, b) }
func Sub(a, b *Term) *Term  { return bvbin("bvsub", a, b) }
func Mul(a, b *Term) *Term  { return bvbin("bvmul", a, b) }
func BAnd(a, b *Term) *Term { return bvbin("bvand", a, b) }
func BOr(a, b *Term) *Term  { return bvbin("bvor", a, b) }
func BXor(a, b *Term) *Term { return bvbin("bvxor", a, b) }
func UDiv(a, b *Term) *Term { return bvbin("bvudiv", a, b) }
func URem(a, b *Term) *Term { return bvbin("bvurem", a, b) }
func SDiv(a, b *Term) *Term { return bvbin("bvsdiv", a, b) }
func SRem(a, b *Term) *Term { return bvbin("bvsrem", a, b) }
func Shl(a, b *Term) *Term  { return bvbin("bvshl", a, b) }
func LShr(a, b *Term) *Term { return bvbin("bvlshr", a, b) }
func AShr(a, b *Term) *Term { return bvbin("bvashr", a, b) }

func BNot(a *Term) *Term {
	if a.IsConst() && a.S.W <= 64 {
		return Const(a.S.W, ^a.Val)
	}
	if a.Op == "bvnot" {
		return a.Args[0]
	}
	return mk(&Term{Op: "bvnot", S: a.S, Args: []*Term{a}})
}

func Neg(a *Term) *Term {
	if a.IsConst() && a.S.W <= 64 {
		return Const(a.S.W, -a.Val)
	}
	return mk(&Term{Op: "bvneg", S: a.S, Args: []*Term{a}})
}

func bvcmp(op string, a, b *Term) *Term {
	if a.S != b.S {
		panic(fmt.Sprintf("%s sort mismatch %s vs %s", op, a.S, b.S))
	}
	w := a.S.W
	if a.IsConst() && b.IsConst() && w <= 64 {
		switch op {
		case "bvult":
			return BoolConst(a.Val < b.Val)
		case "bvule":
			return BoolConst(a.Val <= b.Val)
		case "bvslt":
			return BoolConst(sext64(a.Val, w) < sext64(b.Val, w))
		case "bvsle":
			return BoolConst(sext64(a.Val, w) <= sext64(b.Val, w))
		}
	}
	if a == b {
		return BoolConst(op == "bvule" || op == "bvsle")
	}
	if w <= 64 {
		switch op {
		case "bvult":
			if b.IsConst() && b.Val == 0 {
				return False
			}
		case "bvule":
			if a.IsConst() && a.Val == 0 {
				return True
			}
			if b.IsConst() && b.Val == mask(w) {
				return True
			}
		}
		// zero-extended value compared with a large constant
		if (op == "bvult" || op == "bvule") && a.Op == "zext" && b.IsConst() {
			iw := a.Args[0].S.W
			if iw < 64 && b.Val > mask(iw) {
				return True
			}
		}
		if (op == "bvslt" || op == "bvsle") && a.Op == "zext" && b.IsConst() {
			iw := a.Args[0].S.W
			sb := sext64(b.Val, w)
			if iw < 63 && sb > int64(mask(iw)) {
				return True
			}
			if sb < 0 {
				return False
			}
		}
		if (op == "bvslt" || op == "bvsle") && b.Op == "zext" && a.IsConst() {
			sa := sext64(a.Val, w)
			if sa < 0 {
				return True
			}
			if op == "bvsle" && sa == 0 {
				return True
			}
		}
	}
	return mk(&Term{Op: op, S: BoolSort, Args: []*Term{a, b}})
}

func ULt(a, b *Term) *Term { return bvcmp("bvult", a, b) }
func ULe(a, b *Term) *Term { return bvcmp("bvule", a, b) }
func SLt(a, b *Term) *Term { return bvcmp("bvslt", a, b) }
func SLe(a, b *Term) *Term { return bvcmp("bvsle", a, b) }

func Extract(hi, lo int, a *Term) *Term {
	w := hi - lo + 1
	if lo == 0 && w == a.S.W {
		return a
	}
	if a.IsConst() && a.S.W <= 64 {
		return Const(w, a.Val>>uint(lo))
	}
	if a.Op == "zext" || a.Op == "sext" {
		iw := a.Args[0].S.W
		if hi < iw {
			return Extract(hi, lo, a.Args[0])
		}
		if a.Op == "zext" && lo >= iw {
			return Const(w, 0)
		}
	}
	if a.Op == "concat" {
		lw := a.Args[1].S.W
		if hi < lw {
			return Extract(hi, lo, a.Args[1])
		}
		if lo >= lw {
			return Extract(hi-lw, lo-lw, a.Args[0])
		}
	}
	if a.Op == "extract" {
		return Extract(hi+a.P2, lo+a.P2, a.Args[0])
	}
	return mk(&Term{Op: "extract", S: BV(w), Args: []*Term{a}, P1: hi, P2: lo})
}

func ZExt(a *Term, to int) *Term {
	n := to - a.S.W
	if n == 0 {
		return a
	}
	if n < 0 {
		panic("zext negative")
	}
	if a.IsConst() && to <= 64 {
		return Const(to, a.Val)
	}
	if a.Op == "zext" {
		return ZExt(a.Args[0], to)
	}
	return mk(&Term{Op: "zext", S: BV(to), Args: []*Term{a}, P1: n})
}

func SExt(a *Term, to int) *Term {
	n := to - a.S.W
	if n == 0 {
		return a
	}
	if n < 0 {
		panic("sext negative")
	}
	if a.IsConst() && to <= 64 {
		return Const(to, uint64(sext64(a.Val, a.S.W)))
	}
	if a.Op == "zext" {
		return ZExt(a.Args[0], to)
	}
	return mk(&Term{Op: "sext", S: BV(to), Args: []*Term{a}, P1: n})
}

func Concat(hi, lo *Term) *Term {
	w := hi.S.W + lo.S.W
	if hi.IsConst() && lo.IsConst() && w <= 64 {
		return Const(w, hi.Val<<uint(lo.S.W)|lo.Val)
	}
	return mk(&Term{Op: "concat", S: BV(w), Args: []*Term{hi, lo}})
}

// ---- arrays ----

func ConstArr(s *Sort, v *Term) *Term {
	return mk(&Term{Op: "constarr", S: s, Args: []*Term{v}})
}

func distinctConsts(a, b *Term) bool {
	if a.IsConst() && b.IsConst() {
		return a.Val != b.Val
	}
	// x + c1 vs x + c2
	ba, ca := splitAddConst(a)
	bb, cb := splitAddConst(b)
	if ba == bb && ca != cb {
		return true
	}
	return false
}

func splitAddConst(t *Term) (*Term, uint64) {
	if t.Op == "bvadd" && t.Args[1].IsConst() {
		return t.Args[0], t.Args[1].Val
	}
	if t.IsConst() {
		return nil, t.Val
	}
	return t, 0
}

func Select(a, i *Term) *Term {
	if a.S.Kind != SArray {
		panic("select on non-array " + a.S.str)
	}
	if a.S.Idx != i.S {
		panic(fmt.Sprintf("select index sort mismatch %s vs %s", a.S.Idx, i.S))
	}
	for depth := 0; depth < 4096; depth++ {
		switch a.Op {
		case "store":
			if a.Args[1] == i {
				return a.Args[2]
			}
			if distinctConsts(a.Args[1], i) {
				a = a.Args[0]
				continue
			}
			// read over write: expand when the chain is short or ends in an
			// array comprehension (then everything beta-reduces to scalars)
			n := 0
			root := a
			for root.Op == "store" && n < 200 {
				root = root.Args[0]
				n++
			}
			if root.Op == "lambda" && n < 200 || (n <= 24 && a.S.Elem.Kind != SArray) {
				return Ite(Eq(a.Args[1], i), a.Args[2], Select(a.Args[0], i))
			}
		case "constarr":
			return a.Args[0]
		case "lambda":
			return Subst(a.Args[0], map[*Term]*Term{a.Bound[0]: i})
		case "ite":
			if a.Args[1].Op == "lambda" || a.Args[2].Op == "lambda" {
				return Ite(a.Args[0], Select(a.Args[1], i), Select(a.Args[2], i))
			}
			// push select through ite of arrays when both branches simplify
			if a.Args[1].Op == "store" || a.Args[2].Op == "store" || a.Args[1].Op == "constarr" || a.Args[2].Op == "constarr" {
				x := Select(a.Args[1], i)
				y := Select(a.Args[2], i)
				return Ite(a.Args[0], x, y)
			}
		}
		break
	}
	return mk(&Term{Op: "select", S: a.S.Elem, Args: []*Term{a, i}})
}

func Store(a, i, v *Term) *Term {
	if a.S.Kind != SArray || a.S.Idx != i.S || a.S.Elem != v.S {
		panic(fmt.Sprintf("store sort mismatch %s [%s] := %s", a.S, i.S, v.S))
	}
	if a.Op == "store" && a.Args[1] == i {
		a = a.Args[0]
	}
	// store(a, i, select(a, i)) = a
	if v.Op == "select" && v.Args[0] == a && v.Args[1] == i {
		return a
	}
	return mk(&Term{Op: "store", S: a.S, Args: []*Term{a, i, v}})
}

// ---- array comprehension ----

// Lambda is the array whose element at index b is body (b a bound variable).
// Select on it is beta-reduced by the simplifier, so that array copies,
// ranges of fresh values and frames never need quantified axioms.
func Lambda(b *Term, body *Term) *Term {
	return mk(&Term{Op: "lambda", S: ArrSort(b.S, body.S), Args: []*Term{body}, Bound: []*Term{b}})
}

// ---- quantifiers ----

func Forall(bound []*Term, body *Term, pats ...[]*Term) *Term {
	if body.IsTrue() {
		return True
	}
	if !body.hasB {
		return body
	}
	return mk(&Term{Op: "forall", S: BoolSort, Args: []*Term{body}, Bound: bound, Pats: pats})
}

func Exists(bound []*Term, body *Term) *Term {
	if body.IsFalse() {
		return False
	}
	if !body.hasB {
		return body
	}
	return mk(&Term{Op: "exists", S: BoolSort, Args: []*Term{body}, Bound: bound})
}

// Uninterpreted function application (used for floats and abstracted ops).
func UF(name string, res *Sort, args ...*Term) *Term {
	return mk(&Term{Op: "uf", S: res, Name: name, Args: args})
}

// Subst replaces variables (by pointer) in t.
func Subst(t *Term, m map[*Term]*Term) *Term {
	memo := map[*Term]*Term{}
	var rec func(*Term) *Term
	rec = func(x *Term) *Term {
		if r, ok := m[x]; ok {
			return r
		}
		if len(x.Args) == 0 {
			return x
		}
		if r, ok := memo[x]; ok {
			return r
		}
		args := make([]*Term, len(x.Args))
		ch := false
		for i, a := range x.Args {
			args[i] = rec(a)
			if args[i] != a {
				ch = true
			}
		}
		var r *Term
		if !ch {
			r = x
		} else {
			r = rebuild(x, args)
		}
		memo[x] = r
		return r
	}
	return rec(t)
}

func rebuild(x *Term, a []*Term) *Term {
	switch x.Op {
	case "not":
		return Not(a[0])
	case "and":
		return And(a...)
	case "or":
		return Or(a...)
	case "ite":
		return Ite(a[0], a[1], a[2])
	case "=":
		return Eq(a[0], a[1])
	case "bvadd", "bvsub", "bvmul", "bvand", "bvor", "bvxor", "bvudiv", "bvurem", "bvsdiv", "bvsrem", "bvshl", "bvlshr", "bvashr":
		return bvbin(x.Op, a[0], a[1])
	case "bvnot":
		return BNot(a[0])
	case "bvneg":
		return Neg(a[0])
	case "bvult", "bvule", "bvslt", "bvsle":
		return bvcmp(x.Op, a[0], a[1])
	case "extract":
		return Extract(x.P1, x.P2, a[0])
	case "zext":
		return ZExt(a[0], x.S.W)
	case "sext":
		return SExt(a[0], x.S.W)
	case "concat":
		return Concat(a[0], a[1])
	case "select":
		return Select(a[0], a[1])
	case "store":
		return Store(a[0], a[1], a[2])
	case "constarr":
		return ConstArr(x.S, a[0])
	case "lambda":
		return mk(&Term{Op: "lambda", S: x.S, Args: a, Bound: x.Bound})
	case "forall":
		return mk(&Term{Op: "forall", S: BoolSort, Args: a, Bound: x.Bound, Pats: x.Pats})
	case "exists":
		return mk(&Term{Op: "exists", S: BoolSort, Args: a, Bound: x.Bound})
	case "uf":
		return UF(x.Name, x.S, a...)
	}
	panic("rebuild: " + x.Op)
}

// ---- printing ----

type Printer struct {
	hasLambda bool
	sb      strings.Builder
	defined map[*Term]string
	vars    map[string]*Sort
	ufs     map[string]string
	order   []string
}

func NewPrinter() *Printer {
	return &Printer{defined: map[*Term]string{}, vars: map[string]*Sort{}, ufs: map[string]string{}}
}

func bvlit(w int, v uint64) string {
	if w%4 == 0 {
		return fmt.Sprintf("#x%0*x", w/4, v)
	}
	return fmt.Sprintf("#b%0*b", w, v)
}

// collect declares variables and emits define-funs for shared closed nodes.
func (p *Printer) expr(t *Term) string {
	if s, ok := p.defined[t]; ok {
		return s
	}
	var s string
	switch t.Op {
	case "const":
		if t.S == BoolSort {
			if t.Val != 0 {
				s = "true"
			} else {
				s = "false"
			}
		} else {
			s = bvlit(t.S.W, t.Val)
		}
		p.defined[t] = s
		return s
	case "var":
		p.vars[t.Name] = t.S
		s = "|" + t.Name + "|"
		p.defined[t] = s
		return s
	case "bound":
		return "|" + t.Name + "|"
	}
	args := make([]string, len(t.Args))
	for i, a := range t.Args {
		args[i] = p.expr(a)
	}
	switch t.Op {
	case "extract":
		s = fmt.Sprintf("((_ extract %d %d) %s)", t.P1, t.P2, args[0])
	case "zext":
		s = fmt.Sprintf("((_ zero_extend %d) %s)", t.P1, args[0])
	case "sext":
		s = fmt.Sprintf("((_ sign_extend %d) %s)", t.P1, args[0])
	case "constarr":
		s = fmt.Sprintf("((as const %s) %s)", t.S, args[0])
	case "lambda":
		s = fmt.Sprintf("(lambda ((|%s| %s)) %s)", t.Bound[0].Name, t.Bound[0].S, args[0])
		p.hasLambda = true
	case "forall", "exists":
		var bs []string
		for _, b := range t.Bound {
			bs = append(bs, fmt.Sprintf("(|%s| %s)", b.Name, b.S))
		}
		body := args[0]
		if len(t.Pats) > 0 {
			var ps []string
			for _, pat := range t.Pats {
				var q []string
				for _, x := range pat {
					q = append(q, p.expr(x))
				}
				ps = append(ps, ":pattern ("+strings.Join(q, " ")+")")
			}
			body = "(! " + body + " " + strings.Join(ps, " ") + ")"
		}
		s = fmt.Sprintf("(%s (%s) %s)", t.Op, strings.Join(bs, " "), body)
	case "uf":
		var as []string
		for _, a := range t.Args {
			as = append(as, a.S.str)
		}
		p.ufs[t.Name] = fmt.Sprintf("(declare-fun |%s| (%s) %s)", t.Name, strings.Join(as, " "), t.S)
		if len(args) == 0 {
			s = "|" + t.Name + "|"
		} else {
			s = "(|" + t.Name + "| " + strings.Join(args, " ") + ")"
		}
	default:
		s = "(" + t.Op + " " + strings.Join(args, " ") + ")"
	}
	if t.hasB {
		return s // must stay inline (mentions a bound variable)
	}
	name := fmt.Sprintf("n%d", t.id)
	p.order = append(p.order, fmt.Sprintf("(define-fun %s () %s %s)", name, t.S, s))
	p.defined[t] = name
	return name
}

// Query builds an SMT-LIB script: asserts all `assume`, asserts (not goal).
func BuildQuery(assume []*Term, goal *Term, getValues []*Term) string {
	p := NewPrinter()
	var asserts []string
	seenA := map[*Term]bool{}
	for _, a := range assume {
		if a.IsTrue() || seenA[a] {
			continue
		}
		seenA[a] = true
		asserts = append(asserts, p.expr(a))
	}
	g := p.expr(Not(goal))
	var gv []string
	for _, v := range getValues {
		gv = append(gv, p.expr(v))
	}
	// Canonical names: the global counters behind n<id> and name!<k> depend on
	// what was verified earlier in the same process, and the solvers' running
	// time depends on symbol names. Renumber both in order of first appearance
	// so that the text of a query depends only on its structure.
	rn := &renamer{defs: map[string]string{}, sufs: map[string]string{}}
	var body strings.Builder
	for _, d := range p.order {
		body.WriteString(rn.apply(d))
		body.WriteByte('\n')
	}
	for _, a := range asserts {
		fmt.Fprintf(&body, "(assert %s)\n", rn.apply(a))
	}
	fmt.Fprintf(&body, "(assert %s)\n", rn.apply(g))
	body.WriteString("(check-sat)\n")
	if len(gv) > 0 {
		for i := range gv {
			gv[i] = rn.apply(gv[i])
		}
		fmt.Fprintf(&body, "(get-value (%s))\n", strings.Join(gv, " "))
	}
	var sb strings.Builder
	decls := make([]string, 0, len(p.vars))
	for n, srt := range p.vars {
		decls = append(decls, fmt.Sprintf("(declare-fun %s () %s)", rn.apply("|"+n+"|"), srt))
	}
	sort.Strings(decls)
	for _, d := range decls {
		sb.WriteString(d)
		sb.WriteByte('\n')
	}
	ufn := make([]string, 0, len(p.ufs))
	for n := range p.ufs {
		ufn = append(ufn, rn.apply(p.ufs[n]))
	}
	sort.Strings(ufn)
	for _, u := range ufn {
		sb.WriteString(u)
		sb.WriteByte('\n')
	}
	sb.WriteString(body.String())
	return sb.String()
}

type renamer struct {
	defs map[string]string
	sufs map[string]string
}

var renameRe = regexp.MustCompile(`\|[^|]*\||\bn[0-9]+\b`)
var sufRe = regexp.MustCompile(`![a-z]?[0-9]+`)

func (r *renamer) apply(s string) string {
	return renameRe.ReplaceAllStringFunc(s, func(tok string) string {
		if tok[0] == '|' {
			return sufRe.ReplaceAllStringFunc(tok, func(x string) string {
				if y, ok := r.sufs[x]; ok {
					return y
				}
				y := fmt.Sprintf("!%d", len(r.sufs)+1)
				r.sufs[x] = y
				return y
			})
		}
		if y, ok := r.defs[tok]; ok {
			return y
		}
		y := fmt.Sprintf("n%d", len(r.defs)+1)
		r.defs[tok] = y
		return y
	})
}

func hasQuant(ts []*Term) bool {
	seen := map[*Term]bool{}
	var rec func(*Term) bool
	rec = func(t *Term) bool {
		if seen[t] {
			return false
		}
		seen[t] = true
		if t.Op == "forall" || t.Op == "exists" {
			return true
		}
		for _, a := range t.Args {
			if rec(a) {
				return true
			}
		}
		return false
	}
	for _, t := range ts {
		if rec(t) {
			return true
		}
	}
	return false
}

func termSize(ts []*Term) int {
	seen := map[*Term]bool{}
	var rec func(*Term)
	rec = func(t *Term) {
		if seen[t] {
			return
		}
		seen[t] = true
		for _, a := range t.Args {
			rec(a)
		}
	}
	for _, t := range ts {
		rec(t)
	}
	return len(seen)
}

var _ = bits.Len64
