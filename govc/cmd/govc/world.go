package main

import (
	"fmt"
	"go/ast"
	"go/token"
	"go/types"
	"math"
	"os"
	"sort"
	"strings"
	"time"

	"golang.org/x/tools/go/packages"
	"golang.org/x/tools/go/ssa"
	"golang.org/x/tools/go/ssa/ssautil"
)

const modulePath = "github.com/deepteams/webp"

type World struct {
	RepoDir   string
	Fset      *token.FileSet
	Prog      *ssa.Program
	Pkgs      map[string]*ssa.Package // by import path
	PPkgs     map[string]*packages.Package
	posNode   map[token.Pos]ast.Expr
	contracts map[string]*FuncContract
	lemmas    []*Lemma
	pureFuncs map[string]*PureFunc
	fnInfos   map[*ssa.Function]*fnInfo
	inlineAll bool

	typeTags map[string]int
	tagTypes []types.Type
	strIds   map[string]int

	globalCells   map[*ssa.Global]*Cell
	globalInit    map[*Cell]*Val
	mutableGlobal map[*ssa.Global]bool
	unknownGlobal map[*ssa.Global]bool
	initHeap      map[HKey]*Term
	initClk       uint64
	initFacts     []*Term
	initMode      bool
	initRefs      uint64
	failedInit    map[string]bool
	initNotes     []string
	regionGlobals map[*ssa.Global]uint64 // array globals that are sliced: live in element regions
	caseMask      int
	caseActive    bool
	poolPuts      map[*ssa.Global][]int
	poolBad       map[*ssa.Global]bool

	pureIfaceMethods map[string]bool
	mayWrite         map[*ssa.Function]bool
	loadErrors       []string
}

func loadWorld(dir string, patterns []string, tags string) (*World, error) {
	w := &World{
		Pkgs: map[string]*ssa.Package{}, PPkgs: map[string]*packages.Package{}, posNode: map[token.Pos]ast.Expr{},
		contracts: map[string]*FuncContract{}, pureFuncs: map[string]*PureFunc{}, fnInfos: map[*ssa.Function]*fnInfo{},
		typeTags: map[string]int{}, strIds: map[string]int{}, globalCells: map[*ssa.Global]*Cell{}, globalInit: map[*Cell]*Val{},
		failedInit: map[string]bool{}, regionGlobals: map[*ssa.Global]uint64{},
		mutableGlobal: map[*ssa.Global]bool{}, unknownGlobal: map[*ssa.Global]bool{}, initHeap: map[HKey]*Term{},
		pureIfaceMethods: map[string]bool{
			"image.Image.At": true, "image.Image.Bounds": true, "image.Image.ColorModel": true,
			"image/color.Color.RGBA": true, "image/color.Model.Convert": true, "error.Error": true,
		},
	}
	w.tagTypes = append(w.tagTypes, nil)
	w.RepoDir = dir
	env := append(os.Environ(), "GOFLAGS=-mod=mod", "GOPROXY=off")
	if goarch := os.Getenv("GOVC_GOARCH"); goarch != "" {
		env = append(env, "GOARCH="+goarch)
	}
	cfg := &packages.Config{Mode: packages.LoadAllSyntax, Dir: dir, BuildFlags: []string{"-tags=" + tags}, Env: env}
	pkgs, err := packages.Load(cfg, patterns...)
	if err != nil {
		return nil, err
	}
	packages.Visit(pkgs, nil, func(p *packages.Package) {
		for _, e := range p.Errors {
			w.loadErrors = append(w.loadErrors, e.Error())
		}
	})
	if len(w.loadErrors) > 0 {
		return w, fmt.Errorf("load errors: %s", strings.Join(w.loadErrors, "; "))
	}
	prog, _ := ssautil.AllPackages(pkgs, ssa.NaiveForm|ssa.GlobalDebug|ssa.InstantiateGenerics)
	prog.Build()
	w.Prog = prog
	w.Fset = prog.Fset
	packages.Visit(pkgs, nil, func(p *packages.Package) {
		w.PPkgs[p.PkgPath] = p
		if sp := prog.Package(p.Types); sp != nil {
			w.Pkgs[p.PkgPath] = sp
		}
		if strings.HasPrefix(p.PkgPath, modulePath) || p.PkgPath == "image" || p.PkgPath == "image/color" || p.PkgPath == "encoding/binary" {
			w.indexAST(p.Syntax)
		}
	})
	return w, nil
}

func (w *World) fnInfo(fn *ssa.Function) *fnInfo {
	if fi, ok := w.fnInfos[fn]; ok {
		return fi
	}
	fi := analyzeFn(fn)
	w.fnInfos[fn] = fi
	return fi
}

func (w *World) typeTag(t types.Type) int {
	k := typeKey(t)
	if n, ok := w.typeTags[k]; ok {
		return n
	}
	n := len(w.tagTypes)
	w.typeTags[k] = n
	w.tagTypes = append(w.tagTypes, t)
	return n
}

func (w *World) typeTagByName(k string) int {
	if n, ok := w.typeTags[k]; ok {
		return n
	}
	n := len(w.tagTypes)
	w.typeTags[k] = n
	w.tagTypes = append(w.tagTypes, nil)
	return n
}

func (w *World) tagType(n int) types.Type {
	if n > 0 && n < len(w.tagTypes) {
		return w.tagTypes[n]
	}
	return nil
}

func (w *World) implementsCond(tag *Term, iface types.Type) *Term {
	if tag.IsConst() {
		if t := w.tagType(int(tag.Val)); t != nil {
			if it, ok := iface.Underlying().(*types.Interface); ok {
				return BoolConst(types.Implements(t, it))
			}
		}
		return False
	}
	return And(Neq(tag, Const(32, 0)), UF("implements_"+sanitize(typeKey(iface)), BoolSort, tag))
}

func (w *World) stringConst(t types.Type, s string) *Val {
	if s == "" {
		return mkVal(t, []*Term{Const(32, 0), Const(64, 0)})
	}
	id, ok := w.strIds[s]
	if !ok {
		id = len(w.strIds) + 1
		w.strIds[s] = id
	}
	return mkVal(t, []*Term{Const(32, uint64(0x40000000+id)), Const(64, uint64(len(s)))})
}

func (w *World) floatConst(width int, f float64) *Term {
	if width == 32 {
		return Const(32, uint64(math.Float32bits(float32(f))))
	}
	return Const(64, math.Float64bits(f))
}

// ---- globals ----

func (w *World) globalCell(g *ssa.Global) *Cell {
	if c, ok := w.globalCells[g]; ok {
		return c
	}
	elem := g.Type().Underlying().(*types.Pointer).Elem()
	c := newCell(g.String(), elem)
	c.Global = g
	w.globalCells[g] = c
	return c
}

func (w *World) globalPtr(c *Ctx, st *State, g *ssa.Global) *Val {
	if ref, ok := w.regionGlobals[g]; ok {
		at := g.Type().Underlying().(*types.Pointer).Elem()
		et := at.Underlying().(*types.Array).Elem()
		return &Val{Typ: g.Type(), Ptr: &Addr{Root: Const(32, ref), RType: et, Elem: true, Lo: 0, Hi: len(leafSorts(et)), Typ: at}}
	}
	cell := w.globalCell(g)
	elem := cell.Typ
	return &Val{Typ: g.Type(), Ptr: &Addr{Cell: cell, RType: elem, Lo: 0, Hi: len(leafSorts(elem)), Typ: elem}}
}

// globalInitial gives the value of a global at function entry.
func (c *Ctx) globalInitial(cell *Cell) *Val {
	if v, ok := c.globals[cell]; ok {
		return v
	}
	w := c.W
	var v *Val
	g := cell.Global
	if w.initMode {
		v = zeroVal(cell.Typ)
	} else if iv, ok := w.globalInit[cell]; ok && !w.mutableGlobal[g] && !w.unknownGlobal[g] && iv != poison {
		v = iv
	} else {
		v = freshVal(cell.Typ, "G."+g.Name())
		// type invariants of an unknown global
		c.pendingGlobalInv = append(c.pendingGlobalInv, v)
	}
	if c.globals == nil {
		c.globals = map[*Cell]*Val{}
	}
	c.globals[cell] = v
	return v
}

func (w *World) havocMutableGlobals(c *Ctx, st *State) {
	gs := make([]*ssa.Global, 0, len(w.mutableGlobal))
	for g := range w.mutableGlobal {
		gs = append(gs, g)
	}
	sort.Slice(gs, func(i, j int) bool { return gs[i].String() < gs[j].String() })
	for _, g := range gs {
		cell := w.globalCell(g)
		if strings.HasPrefix(g.Pkg.Pkg.Path(), modulePath) {
			st.cells[cell] = c.havocVal(st, cell.Typ, "G."+g.Name())
		}
	}
}

// scanGlobals finds globals that are written outside package initialisers.
func (w *World) scanGlobals() {
	for fn := range ssautil.AllFunctions(w.Prog) {
		if fn.Pkg == nil || !strings.HasPrefix(fn.Pkg.Pkg.Path(), modulePath) {
			continue
		}
		isInit := fn.Name() == "init" || strings.HasPrefix(fn.Name(), "init#")
		if isInit {
			for _, b := range fn.Blocks {
				for _, in := range b.Instrs {
					if sl, ok := in.(*ssa.Slice); ok {
						if g, ok := sl.X.(*ssa.Global); ok {
							if _, isArr := g.Type().Underlying().(*types.Pointer).Elem().Underlying().(*types.Array); isArr {
								w.regionGlobals[g] = 0
							}
						}
					}
				}
			}
		}
		// functions only reachable from init (e.g. initClipTables) also write
		// tables; they are recognised by being called from init only.
		if isInit {
			continue
		}
		for _, b := range fn.Blocks {
			for _, in := range b.Instrs {
				if sl, ok := in.(*ssa.Slice); ok {
					if g, ok := sl.X.(*ssa.Global); ok {
						if _, isArr := g.Type().Underlying().(*types.Pointer).Elem().Underlying().(*types.Array); isArr {
							if _, seen := w.regionGlobals[g]; !seen {
								w.regionGlobals[g] = 0
							}
						}
					}
				}
				st, ok := in.(*ssa.Store)
				if !ok {
					continue
				}
				if g := rootGlobal(st.Addr); g != nil {
					if w.initOnly(fn) {
						continue
					}
					w.mutableGlobal[g] = true
				}
			}
		}
	}
}

func rootGlobal(v ssa.Value) *ssa.Global {
	for i := 0; i < 16; i++ {
		switch x := v.(type) {
		case *ssa.Global:
			return x
		case *ssa.FieldAddr:
			v = x.X
		case *ssa.IndexAddr:
			v = x.X
		default:
			return nil
		}
	}
	return nil
}

var initOnlyMemo = map[*ssa.Function]int{}

// initOnly reports whether fn is (transitively) only called from package
// initialisers. Uses a syntactic caller scan.
func (w *World) initOnly(fn *ssa.Function) bool {
	if v, ok := initOnlyMemo[fn]; ok {
		return v == 1
	}
	initOnlyMemo[fn] = 2 // in progress: assume not
	callers := w.callersOf(fn)
	res := len(callers) > 0
	for _, cl := range callers {
		if cl.Name() == "init" || strings.HasPrefix(cl.Name(), "init#") {
			continue
		}
		if !w.initOnly(cl) {
			res = false
			break
		}
	}
	if res {
		initOnlyMemo[fn] = 1
	} else {
		initOnlyMemo[fn] = 0
	}
	return res
}

var callerIndex map[*ssa.Function][]*ssa.Function

func (w *World) callersOf(fn *ssa.Function) []*ssa.Function {
	if callerIndex == nil {
		callerIndex = map[*ssa.Function][]*ssa.Function{}
		for f := range ssautil.AllFunctions(w.Prog) {
			if f.Pkg == nil || !strings.HasPrefix(f.Pkg.Pkg.Path(), modulePath) {
				continue
			}
			for _, b := range f.Blocks {
				for _, in := range b.Instrs {
					// any reference to a function value counts as a call
					for _, op := range in.Operands(nil) {
						if op == nil || *op == nil {
							continue
						}
						if callee, ok := (*op).(*ssa.Function); ok {
							callerIndex[callee] = append(callerIndex[callee], f)
						}
					}
				}
			}
		}
	}
	return callerIndex[fn]
}

// runInits executes the package initialisers of the module symbolically to
// obtain the values of package-level tables and constants-as-variables.
func (w *World) runInits() []string {
	var notes []string
	w.scanGlobals()
	w.initMode = true
	ctx := &Ctx{W: w, FnName: "init", h0: map[HKey]*Term{}, quiet: 1}
	st := &State{pc: True, cells: map[*Cell]*Val{}, heap: map[HKey]*Term{}, clk: Const(32, 1), regs: map[ssa.Value]*Val{}}
	{
		// reserve element regions for array globals that are sliced somewhere
		var gs []*ssa.Global
		for g := range w.regionGlobals {
			gs = append(gs, g)
		}
		sort.Slice(gs, func(i, j int) bool { return gs[i].String() < gs[j].String() })
		for _, g := range gs {
			et := g.Type().Underlying().(*types.Pointer).Elem().Underlying().(*types.Array).Elem()
			ref := ctx.newRegion(st, et)
			w.regionGlobals[g] = ref.Val
		}
	}
	// dependency order: packages.Visit post-order
	var order []*ssa.Package
	seen := map[*ssa.Package]bool{}
	var visit func(p *ssa.Package)
	visit = func(p *ssa.Package) {
		if seen[p] {
			return
		}
		seen[p] = true
		for _, imp := range p.Pkg.Imports() {
			if sp := w.Prog.Package(imp); sp != nil && strings.HasPrefix(imp.Path(), modulePath) {
				visit(sp)
			}
		}
		order = append(order, p)
	}
	var paths []string
	for path := range w.Pkgs {
		if strings.HasPrefix(path, modulePath) {
			paths = append(paths, path)
		}
	}
	sort.Strings(paths)
	// the colour models and image constants of the standard library are
	// package-level values the code compares against
	for _, path := range []string{"image/color", "image"} {
		if sp, ok := w.Pkgs[path]; ok {
			order = append(order, sp)
			seen[sp] = true
		}
	}
	for _, path := range paths {
		visit(w.Pkgs[path])
	}
	for _, p := range order {
		initFn := p.Func("init")
		if initFn == nil || initFn.Blocks == nil {
			continue
		}
		ok := func() (ok bool) {
			defer func() {
				if r := recover(); r != nil {
					if u, isU := r.(unsupported); isU {
						notes = append(notes, fmt.Sprintf("init of %s not executed: %s", p.Pkg.Path(), u.msg))
						ok = false
						return
					}
					panic(r)
				}
			}()
			work := st.clone()
			work.regs = map[ssa.Value]*Val{}
			ctx.unrolled = 0
			ctx.steps = 0
			ctx.started = time.Now()
			ctx.stack = []*ssa.Function{initFn}
			_, out := ctx.runFunction(work, initFn, nil, nil)
			ctx.stack = nil
			if out == nil {
				notes = append(notes, fmt.Sprintf("init of %s does not return", p.Pkg.Path()))
				return false
			}
			out.regs = map[ssa.Value]*Val{}
			*st = *out
			return true
		}()
		if os.Getenv("GOVC_VERBOSE") != "" {
			fmt.Fprintf(os.Stderr, "  init %s: %.1fs ok=%v\n", p.Pkg.Path(), time.Since(ctx.started).Seconds(), ok)
		}
		if !ok {
			w.failedInit[p.Pkg.Path()] = true
			for _, m := range p.Members {
				if g, isG := m.(*ssa.Global); isG {
					w.unknownGlobal[g] = true
				}
			}
		}
	}
	w.initMode = false
	for cell, v := range st.cells {
		if cell.Global != nil {
			w.globalInit[cell] = v
		}
	}
	for k, t := range st.heap {
		w.initHeap[k] = t
	}
	if st.clk.IsConst() {
		w.initClk = st.clk.Val
	} else {
		w.initClk = 1 << 20
		notes = append(notes, "init allocation count is symbolic")
	}
	w.initFacts = ctx.assumes
	notes = append(notes, w.initNotes...)
	return notes
}

// poolTypes: the dynamic types ever Put into the sync.Pool the call refers to
// (only for pools that are package-level variables).
func (w *World) poolTypes(fn *ssa.Function, args []*Val) ([]int, bool) {
	if len(args) == 0 || args[0] == nil || args[0].Ptr == nil || args[0].Ptr.Cell == nil || args[0].Ptr.Cell.Global == nil {
		return nil, false
	}
	g := args[0].Ptr.Cell.Global
	if w.poolPuts == nil {
		w.poolPuts = map[*ssa.Global][]int{}
		w.poolBad = map[*ssa.Global]bool{}
		for f := range ssautil.AllFunctions(w.Prog) {
			if f.Pkg == nil || !strings.HasPrefix(f.Pkg.Pkg.Path(), modulePath) {
				continue
			}
			for _, b := range f.Blocks {
				for _, in := range b.Instrs {
					call, ok := in.(ssa.CallInstruction)
					if !ok {
						continue
					}
					cc := call.Common()
					callee := cc.StaticCallee()
					if callee == nil || fullName(callee) != "sync.Pool.Put" || len(cc.Args) != 2 {
						continue
					}
					pg, ok := cc.Args[0].(*ssa.Global)
					if !ok {
						continue
					}
					mi, ok := cc.Args[1].(*ssa.MakeInterface)
					if !ok {
						w.poolBad[pg] = true
						continue
					}
					w.poolPuts[pg] = append(w.poolPuts[pg], w.typeTag(mi.X.Type()))
				}
			}
		}
	}
	if w.poolBad[g] {
		return nil, false
	}
	// the pool's New function (if any) is not modelled: Get may also return nil
	return w.poolPuts[g], true
}
