#!/usr/bin/env python3
"""Regenerates MANIFEST.json from the table below (kept in one place so the
manifest stays valid while the set of claimed properties grows)."""
import json, subprocess

BASELINE_CMD = json.load(open('/root/.vp/BASELINE.json'))['cmd']

TECH = "contract-based deductive verification: WP-style VC generation over go/ssa of the real code, contracts as //@ comments in build-tagged files, obligations discharged by z3/cvc5"
NOTE = "Trusted: go/ssa translation, the govc encoding, the SMT solvers, intrinsic axioms (copy/append/len/io.Writer), allocation succeeds, slices < 2^48 elements, append returns fresh memory, floats/maps/strings uninterpreted. Spec functions (zz_spec_verif.go) are the meaning of the formats. Abstracted calls, trusted contracts and undecided obligations are listed in the evidence file of each run."

CLAIMED = {
 "C01": ("Partial, proof level for what is covered: for all 32-bit pixel values the encoder- and decoder-side VP8L pixel kernels (add/sub pixels, average2, select, clamped add-subtract full/half, the 14 predictor modes, cross-colour forward/inverse pixel functions, subtract-green/add-green loops with quantified loop contracts) equal specification functions written from the lossless bitstream specification, and each forward/inverse pair is inverse; the decoder's inverse-transform chain never unpacks a packed palette image in place (call-site contract on applyInverseTransforms: source and destination of a packed colour-indexing inverse are different allocations - this obligation found the defect repaired in e5ffc85). Not covered: entropy coding, LZ77/colour-cache, transform selection, the image-level composition of the round trip.", NOTE, "DESIGN.md §6 C01"),
 "C03": ("Partial, proof level for what is covered: the decoder's pixel kernels and the 14 spatial predictors of internal/dsp equal the specification's functions for all inputs; add-green and cross-colour inverse transform loops with quantified invariants and frame conditions; the inverse-transform chain applies a packed colour-indexing inverse out of place (defect repaired in e5ffc85, libwebp-written files with palette plus predictor transforms decoded to wrong pixels). Not covered: prefix-code construction and decodeImageData functional correctness, 2-D transform loops (non-linear index arithmetic), assembly kernels.", NOTE, "DESIGN.md §6 C03"),
 "C05": ("Proof (SMT unsat for every generated obligation, all inputs, all loop iterations) that no index, slice, nil-dereference, division, make or explicit panic can occur and that every annotated loop terminates, in every function under contract of internal/container, mux (demux side and writer helpers), internal/bitio's lossless bit reader (with its representation invariant), the VP8L header decoder, the ALPH header decoder, the animation decoder helpers and the dsp kernels under contract. Byte strings, lengths and struct fields are fully symbolic; integers are exact bit-vectors. Found and repaired: NewDemuxer panic on RIFF size < 4 (2287490). Functions outside the listed set (codec cores: Huffman/LZ77 decoding, VP8 macroblock parsing) are not covered; time/memory proportionality and goroutine deadlock are not decided.", NOTE, "DESIGN.md §6 C05"),
 "C09": ("Partial, proof level for what is covered: alphaBlendNRGBA equals the specification's blend function for all 2^64 input pairs; the key-frame predicate is sound; Reset re-establishes the initial decoder state field by field and clears both canvases (quantified); clearCanvas and Frame.Bounds contracts; compositeFrame disposes with the previous frame's rectangle and method and blends with the frame's own blend mode (call-site contracts on fillRect/blendFrame arguments). Not covered: the 2-D pixel loops inside fillRect/blendFrame (non-linear index arithmetic is beyond the solvers; see DESIGN.md).", NOTE, "DESIGN.md §6 C09"),
 "C13": ("Partial, proof level for what is covered: the portable Go kernels every build without assembly runs (VP8L pixel kernels and predictors, green transforms, inverse DCT/WHT, loop-filter primitives, clip tables, fancy upsampler safety) equal architecture-independent specification functions for all inputs, with Go's int modelled at 64 bits; in addition the module is type-checked for GOARCH=386 and GOARCH=arm on every run (obligations webp.module:typecheck:*; go/types is the deciding back end there) - this found the 32-bit build break in internal/dsp/random.go (repaired in eafa83a). Not covered: assembly kernels and their Go wrappers (no Go verifier can read them), 32-bit int overflow behaviour of the remaining code, big-endian targets.", NOTE, "DESIGN.md §6 C13"),
 "C15": ("Partial, proof level for what is covered: Encode hands the caller's options (Exact, Method) unchanged to the lossless encoder on both the metadata and the no-metadata path, for every options value (call-site contracts), so the embedded bitstream cannot depend on the presence of metadata through the options; writeRIFF passes bitstream, alpha data, dimensions and the three blobs unchanged to the extended writer and uses the simple form only when there is nothing to announce; the muxer's VP8X flags byte announces exactly the blobs present and writeDataChunk copies a blob byte for byte. Not covered: encode.go writeRIFFExtended's own byte layout (does not discharge in time), the demux side of the metadata round trip.", NOTE, "DESIGN.md §6 C15"),
 "C16": ("Partial, proof level for what is covered: the colour model DecodeConfig announces equals the dynamic type decodeLossy/decodeFrame return, for every parsed frame (found and repaired: 657b517); DecodeConfig's width/height are the parser's; the header parsers of the two container readers agree (whenever internal/container accepts a VP8/VP8L header, mux's parser accepts it with the same width, height and alpha flag - lemmas over the real functions); the VP8L header decoder reads the same 14+14+1+3 bit fields. The codec cores are summarised by trusted contracts. Not covered: agreement with the dimensions the codec cores finally allocate, animation reader view.", NOTE, "DESIGN.md §6 C16"),
 "C20": ("Partial, proof level for what is covered: validateConfig accepts only the documented integer ranges and rejects the listed violations; every resolve* helper equals its documented default function; at the call sites that configure the VP8 encoder and the alpha encoder every sentinel resolves to the documented default (Segments/Pass including 0), for all option values; nil options are replaced by DefaultOptions before use. Not covered: floating-point fields (NaN/Inf clauses), panics deep inside the encoders, byte-identical output (follows from equal configurations only under determinism).", NOTE, "DESIGN.md §6 C20"),
}


CLAIMED.update({
 "C02": ("Partial, proof level for what is covered: chunk size arithmetic; the simple-format writers of the muxer and of Encode (writeRIFFSimple: RIFF size field = bytes written - 8, even length, chunk length field and payload bytes, via a ghost byte log of the io.Writer); Encode chooses the simple form only when there is no alpha data and no metadata and passes its blobs unchanged to the extended writer (call-site contracts); the muxer's VP8X header (flags announce exactly the blobs present, reserved bytes zero, canvas-1 in 24 bits); the VP8 frame assembled by assembleFrame (3-byte frame tag with key-frame/version/show bits and the 19-bit first-partition size equal to len(part0), start code, 14-bit dimensions, partition size table entries equal to the token partition lengths, every partition copied byte for byte at the offset the header announces) and emitFrame rejects partitions that do not fit the size fields (found and repaired: 23a0f1d); the ALPH header byte of encodeAlphaInternal. Not covered: encode.go writeRIFFExtended (its obligations do not discharge in time on any installed solver), conformance of the entropy-coded payloads, an independent decoder.", NOTE, "DESIGN.md §6 C02"),
 "C04": ("Partial, proof level for what is covered: the decoder's inverse DCT (transformOne, DC-only and AC3 shortcuts) equals the RFC 6386 section 14.3 inverse transform followed by the clamped add, for all coefficient and prediction values (per-pixel spec function, 16 cases each); transformWHT equals the section 14.3 inverse Walsh-Hadamard; the loop-filter primitives (clip tables against their arithmetic definitions, needsFilter, hev, the simple, inner and macroblock-edge filters doFilter2/4/6) equal spec functions written from RFC 6386 section 15 for all pixel values and thresholds; the per-segment filter parameters of precomputeFilterStrengths equal the section 9.6/15.2 formulas; the horizontal ALPH unfilter row. Not covered: bool decoder, coefficient token parsing, intra prediction, the 2-D drivers that walk macroblocks (non-linear index arithmetic), vertical/gradient unfilters, upsampling arithmetic beyond safety.", NOTE, "DESIGN.md §6 C04"),
 "C06": ("Partial, proof level for what is covered: the encoder's reconstruction transform iTransformOne computes exactly the decoder's transformOne on every coefficient block and prediction (both equal the same RFC 6386 spec function, for all inputs), likewise the inverse WHT; when the encoder switches the segment map off every macroblock is re-assigned to segment 0 (quantified loop contract); the frame header assembleFrame writes announces the partition sizes the decoder will use. Not covered: dequantisation agreement, token recorder vs coefficient parser, intra predictors, probability updates.", NOTE, "DESIGN.md §6 C06"),
 "C07": ("Partial, proof level for what is covered: encodeAlphaInternal stores, for a raw payload, exactly the plane produced by the filter named in the header byte (also on the fallback from lossless to raw), the header's filter/method/pre-processing fields are the ones used, payload length 1 + width*height; the horizontal unfilter row is the prefix sum the filter inverts; the lossless alpha path's inverse transforms never unpack a palette in place (repaired in e5ffc85: lossless alpha planes at Method 6 decoded wrong). Not covered: vertical/gradient filter pairs, quantizeLevels (floating point), the VP8L coding of the plane.", NOTE, "DESIGN.md §6 C07"),
 "C08": ("Partial, proof level for what is covered: after a key frame the encoder's previous-frame rectangle is the whole canvas; the blend-admissibility lemma (blending a frame pixel over the previous canvas pixel reproduces it when it is opaque or both are the same transparent pixel); pixels judged similar always have identical alpha. The predicate isLosslessBlendingPossible really uses is refuted by the solver for unchanged semi-transparent pixels: recorded as a known finding. Not covered: sub-frame rectangle search, frame codec round trip, timing fields.", NOTE, "DESIGN.md §6 C08"),
 "C11": ("Partial, proof level for what is covered: acquireDecoder hands out a lossy decoder whose every field is either zero (proved field by field; a coverage obligation fails when a struct field is not classified) or scratch that a named phase rewrites; for the loop-filter strength table the rewrite of all 8 slots is itself proved. Not covered: the other scratch fields' overwrite proofs (listed as assumptions), encoder pools, lossless pools.", NOTE, "DESIGN.md §6 C11"),
 "C14": ("Partial, proof level for what is covered: chunkTotalSize/frameSubChunksSize equal the sum of individually padded chunks; writeDataChunk emits FourCC, little-endian length, the payload bytes and a zero pad byte and leaves earlier output untouched (quantified, ghost byte log); writeANMFChunk's size field equals the payload bytes written after it; assembleSimple's RIFF layout; assembleExtended's RIFF/VP8X header: flags announce exactly the blobs present and the animation bit, reserved bytes zero, canvas-1 in 24 bits; the simple layout is chosen only when no frame carries an ALPH chunk (found and repaired: d1e1ad9); splitAlphaAndBitstream's ALPH-prefix convention; demux-side parsers are panic-free and terminate. Not covered: positions of the chunks after the VP8X header, mux->demux field round trip lemmas.", NOTE, "DESIGN.md §6 C14"),
 "C17": ("Partial, proof level for what is covered (container and bit-reader level): a simple-format file is accepted only if the whole padded image chunk lies inside the buffer and the frame payload is exactly the declared byte range; a non-animated extended file is accepted only with an image frame (found and repaired: 6ff93ee); chunk header reads are exact; the lossless bit reader never reads past its buffer, sets its end-of-stream flag when it runs out, and keeps its representation invariant. Not covered: how the codec cores react to the end-of-stream flag.", NOTE, "DESIGN.md §6 C17"),
 "C18": ("Partial, proof level for what is covered: encodeFrameForAnimation, for a lossy frame whose encoder produced alpha data, returns a payload that starts with an ALPH chunk header carrying the exact length, then exactly those alpha bytes, the pad byte, then the VP8 bitstream (quantified postcondition) and asks the encoder for unquantised alpha (call-site contracts, also on the single-frame shortcut) - found and repaired: 7f143a2; the muxer takes that convention apart (splitAlphaAndBitstream) and never writes such a frame in the simple layout (d1e1ad9); pixels the animation encoder treats as similar always have identical alpha. Not covered: that the codec cores reproduce the alpha plane (C07), codec choice in mixed mode (the encoders are abstracted at that call), VP8 colour.", NOTE, "DESIGN.md §6 C18"),
})

NOT_APPLICABLE = {
 "C10": "quantifies over goroutine interleavings; sequential function-by-function contracts and the available solvers cannot express or decide schedules, and no Go concurrency verifier is installed",
}

CLAIMED.update({
 "C19": ("Partial, proof level for what is covered: every byte imageHasAlpha reads from an *image.NRGBA or *image.RGBA buffer is the alpha byte of one of the first w pixels of a row y with Min.Y <= y < Max.Y (read-footprint obligations with loop invariants; offsets compared modulo 2^64 so no overflow assumption on Stride is needed), hence pixels outside the bounds - stride padding, rows of a parent image - cannot influence the alpha decision, for every bounds/stride/origin. Not covered: the pixel import paths of the codecs (2-D non-linear offsets), byte-identical output across storage layouts, RGBA un-premultiplication.", NOTE, "DESIGN.md §6 C19"),
})
NOT_APPLICABLE["C12"] = "the GOMAXPROCS-dependent code paths are goroutine fork-join sections and worker-count-selected algorithms (serial vs parallel hash chain, row-pipelined encoder, histogram remap); the sequential weakest-precondition engine has no model of goroutines and cannot relate the two algorithms, so no contract within reach decides the property"

ALL = ["C%02d" % i for i in range(1, 21)]

def main():
    checks = []
    for pid in ALL:
        if pid not in CLAIMED:
            continue
        text, note, ref = CLAIMED[pid]; tech = TECH
        checks.append({
            "property_id": pid,
            "quick_cmd": f"bin/govc check -property {pid} -tier quick",
            "thorough_cmd": f"bin/govc check -property {pid} -tier thorough",
            "evidence_file": f"/verif/evidence/{pid}.json",
            "replay_cmd_template": "bin/govc replay {path}",
            "engine": "govc",
            "level_claimed": {"category": "proof", "text": text, "design_ref": ref},
            "level_note": note,
            "technique": tech,
        })
    na = []
    for pid in ALL:
        if pid in CLAIMED:
            continue
        reason = NOT_APPLICABLE.get(pid, "contracts for this property are not built yet in this tree; nothing is claimed (see DESIGN.md §1 for the plan)")
        na.append({"property_id": pid, "reason": reason})
    hooks_commits = subprocess.run(["git", "-C", "/repo", "log", "--format=%h %s", "--grep=^verif:"], capture_output=True, text=True).stdout.strip().split("\n")
    m = {
        "version": 1,
        "setup_cmd": "cd /verif/govc && GOFLAGS=-mod=mod GOPROXY=off go build -o ../bin/govc ./cmd/govc",
        "hooks": {
            "guard": "verif",
            "enable": "go build -tags verif (the checks load /repo with -tags=verif; the guarded files are comment-only contract files zz_contracts*_verif.go and spec functions zz_spec_verif.go)",
            "baseline_off_cmd": BASELINE_CMD,
            "source_commits": [c.split()[0] for c in hooks_commits if c],
            "add_only": True,
        },
        "engines": [{"name": "govc", "path": "/verif/govc", "serves_properties": sorted(CLAIMED), "kind_free_text": "home-made deductive verifier for Go: go/ssa -> guarded commands -> SMT-LIB (bit-vectors + arrays), z3 4.8.12 / z3 5.1.0 / cvc5 1.0.3 raced per obligation; contracts as //@ comments in build-tagged files of /repo"}],
        "checks": checks,
        "not_applicable": na,
        "notes": "Every check rebuilds the SSA of /repo's working tree and regenerates every verification condition on each run. expected_obligations.json lists, per property, the obligations that discharge on the reference tree (the claimed set); KNOWN_FINDINGS.txt lists repaired and known defects by obligation name.",
    }
    json.dump(m, open('/verif/MANIFEST.json', 'w'), indent=1)

main()
