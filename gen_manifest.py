#!/usr/bin/env python3
"""Regenerates MANIFEST.json from the table below (kept in one place so the
manifest stays valid while the set of claimed properties grows)."""
import json, subprocess

BASELINE_CMD = json.load(open('/root/.vp/BASELINE.json'))['cmd']

TECH = "contract-based deductive verification: WP-style VC generation over go/ssa of the real code, contracts as //@ comments in build-tagged files, obligations discharged by z3/cvc5"
NOTE = "Trusted: go/ssa translation, the govc encoding, the SMT solvers, intrinsic axioms (copy/append/len/io.Writer), allocation succeeds, slices < 2^48 elements, append returns fresh memory, floats/maps/strings uninterpreted. Spec functions (zz_spec_verif.go) are the meaning of the formats. Abstracted calls, trusted contracts and undecided obligations are listed in the evidence file of each run."

CLAIMED = {
 "C01": ("Partial, proof level for what is covered: for all 32-bit pixel values the encoder- and decoder-side VP8L pixel kernels (add/sub pixels, average2, select, clamped add-subtract full/half, the 14 predictor modes, cross-colour forward/inverse pixel functions, subtract-green/add-green loops with quantified loop contracts) equal specification functions written from the lossless bitstream specification, and each forward/inverse pair is inverse. Not covered: entropy coding, LZ77/colour-cache, transform selection, the image-level composition of the round trip.", NOTE, "DESIGN.md §6 C01"),
 "C03": ("Partial, proof level for what is covered: the decoder's pixel kernels and the 14 spatial predictors of internal/dsp equal the specification's functions for all inputs; add-green inverse transform loop proved with quantified invariants and frame conditions. Not covered: prefix-code construction and decodeImageData functional correctness, 2-D transform loops (non-linear index arithmetic), assembly kernels.", NOTE, "DESIGN.md §6 C03"),
 "C05": ("Proof (SMT unsat for every generated obligation, all inputs, all loop iterations) that no index, slice, nil-dereference, division, make or explicit panic can occur and that every annotated loop terminates, in every function under contract of internal/container, mux (demux side) and the animation decoder helpers. Byte strings, lengths and struct fields are fully symbolic; integers are exact bit-vectors. Functions outside the listed set (codec cores) are not covered; time/memory proportionality and goroutine deadlock are not decided.", NOTE, "DESIGN.md §6 C05"),
 "C09": ("Partial, proof level for what is covered: alphaBlendNRGBA equals the specification's blend function for all 2^64 input pairs; the key-frame predicate is sound (a frame is treated as key frame only if it is first, or covers the canvas and overwrites, or the canvas is transparent after a covering/key-frame dispose); Reset re-establishes the initial decoder state field by field and clears both canvases (quantified); clearCanvas and Frame.Bounds contracts. Not covered: the 2-D compositing loops of compositeFrame/fillRect (non-linear index arithmetic is beyond the solvers; see DESIGN.md).", NOTE, "DESIGN.md §6 C09"),
 "C13": ("Partial, proof level for what is covered: the portable Go pixel kernels (the ones every non-amd64/arm64 build runs) equal the specification functions for all inputs, so portable-vs-spec is decided; Not covered: assembly kernels and their Go wrappers (no Go verifier can read them), the GOARCH build matrix.", NOTE, "DESIGN.md §6 C13"),
 "C15": ("Partial, proof level for what is covered: Encode hands the caller's options (Exact, Method) unchanged to the lossless encoder on both the metadata and the no-metadata path, for every options value (call-site contracts), so the embedded lossless bitstream cannot depend on the presence of metadata through the options. Not covered yet: byte-exact chunk layout of writeRIFFExtended, the mux/demux metadata path.", NOTE, "DESIGN.md §6 C15"),
 "C16": ("Partial, proof level for what is covered: the colour model DecodeConfig announces equals the dynamic type decodeLossy/decodeFrame return, for every parsed frame (YCbCr exactly for lossy frames without alpha bytes); DecodeConfig's width/height are the parser's. The codec cores are summarised by trusted contracts (result non-nil on success). Not covered yet: header-parser triplet agreement, cross-view agreement of demuxer/animation reader.", NOTE, "DESIGN.md §6 C16"),
 "C20": ("Partial, proof level for what is covered: validateConfig accepts only the documented integer ranges and rejects the listed violations; every resolve* helper equals its documented default function; at the call sites that configure the VP8 encoder and the alpha encoder every sentinel resolves to the documented default (Segments/Pass including 0), for all option values; nil options are replaced by DefaultOptions before use. Not covered: floating-point fields (NaN/Inf clauses), panics deep inside the encoders, byte-identical output (follows from equal configurations only under determinism).", NOTE, "DESIGN.md §6 C20"),
}


CLAIMED.update({
 "C02": ("Partial, proof level for what is covered: chunk size arithmetic (header + payload + pad) and the simple-format RIFF writer of the muxer: the RIFF size field equals the bytes written minus 8, the file length is even, the image chunk carries its exact length and payload bytes (ghost byte log of the io.Writer); the ALPH header byte written by encodeAlphaInternal carries the filter actually applied and the final compression method. Not covered yet: encode.go writeRIFFExtended layout, VP8 frame header/partition table of assembleFrame, conformance of entropy-coded payloads, an independent decoder.", NOTE, "DESIGN.md §6 C02"),
 "C04": ("Partial, proof level for what is covered: the per-segment loop-filter parameters (level with segment/mode deltas and clamp, interior limit by sharpness, edge limit, high-edge-variance threshold, inner-edge flag) computed by precomputeFilterStrengths equal specification functions written from RFC 6386 §9.6/§15.2 for every header value and all 4x2 slots. Not covered yet: inverse DCT/WHT kernels, loop-filter pixel functions, bool decoder, ALPH unfilter kernels, upsampling.", NOTE, "DESIGN.md §6 C04"),
 "C06": ("Partial, proof level for what is covered: when the encoder switches the segment map off every macroblock is re-assigned to segment 0 (what the decoder will assume), for any number of macroblocks (quantified loop contract). Not covered yet: reconstruction kernel twins (iTransform vs transform), dequantisation agreement, token recorder vs coefficient parser.", NOTE, "DESIGN.md §6 C06"),
 "C07": ("Partial, proof level for what is covered: encodeAlphaInternal stores, for a raw (uncompressed) payload, exactly the plane produced by the filter named in the header byte (also on the fallback from lossless to raw), the header's filter/method/pre-processing fields are the ones used, and the payload length is 1 + width*height. Not covered yet: filter/unfilter inverse pairs, the lossless alpha path, quantizeLevels (floating point).", NOTE, "DESIGN.md §6 C07"),
 "C08": ("Partial, proof level for what is covered: after a key frame the encoder's previous-frame rectangle is the whole canvas; the blend-admissibility lemma (blending a frame pixel over the previous canvas pixel reproduces it when it is opaque or both are the same transparent pixel); pixels judged similar always have identical alpha. The predicate isLosslessBlendingPossible really uses is refuted by the solver for unchanged semi-transparent pixels: recorded as a known finding. Not covered: sub-frame rectangle search, frame codec round trip, timing fields.", NOTE, "DESIGN.md §6 C08"),
 "C11": ("Partial, proof level for what is covered: acquireDecoder hands out a lossy decoder whose every field is either zero (proved field by field; a coverage obligation fails when a struct field is not classified) or scratch that a named phase rewrites; for the loop-filter strength table the rewrite of all 8 slots is itself proved. Not covered: the other scratch fields' overwrite proofs (listed as assumptions), encoder pools, lossless pools.", NOTE, "DESIGN.md §6 C11"),
 "C14": ("Partial, proof level for what is covered: chunkTotalSize/frameSubChunksSize equal the sum of individually padded chunks; writeDataChunk emits FourCC, little-endian length, the payload bytes and a zero pad byte and leaves earlier output untouched (quantified, ghost byte log); writeANMFChunk's size field equals the payload bytes written after it; assembleSimple's RIFF layout; splitAlphaAndBitstream's ALPH-prefix convention; demux-side parsers are panic-free and terminate. Not covered yet: assembleExtended as a whole, mux->demux field round trip lemmas.", NOTE, "DESIGN.md §6 C14"),
 "C17": ("Partial, proof level for what is covered (container level): a simple-format file is accepted only if the whole padded image chunk lies inside the buffer and the frame payload is exactly the declared byte range; a non-animated extended file is accepted only with an image frame (the zero-frame prefix defect was found by this obligation and repaired); chunk header reads are exact. Not covered: the bit readers' end-of-stream discipline inside the codecs.", NOTE, "DESIGN.md §6 C17"),
 "C18": ("Partial, proof level for what is covered: pixels the animation encoder treats as similar (and therefore blends instead of overwriting) always have identical alpha, for all pixel values and thresholds; the ALPH-prefix convention of frame payloads handed to the muxer (splitAlphaAndBitstream). Not covered: that the lossy frame encoder attaches the alpha plane at all (encodeFrameForAnimation), VP8 colour.", NOTE, "DESIGN.md §6 C18"),
})

NOT_APPLICABLE = {
 "C10": "quantifies over goroutine interleavings; sequential function-by-function contracts and the available solvers cannot express or decide schedules, and no Go concurrency verifier is installed",
}

CLAIMED.update({
 "C19": ("Partial, proof level for what is covered: every byte imageHasAlpha reads from an *image.NRGBA or *image.RGBA buffer is the alpha byte of one of the first w pixels of a row y with Min.Y <= y < Max.Y (read-footprint obligations with loop invariants; offsets compared modulo 2^64 so no overflow assumption on Stride is needed), hence pixels outside the bounds - stride padding, rows of a parent image - cannot influence the alpha decision, for every bounds/stride/origin. Not covered: the pixel import paths of the codecs (2-D non-linear offsets), byte-identical output across storage layouts, RGBA un-premultiplication.", NOTE, "DESIGN.md §6 C19"),
})
NOT_APPLICABLE["C12"] = "the GOMAXPROCS-dependent code paths are goroutine fork-join sections and worker-count-selected algorithms (serial vs parallel hash chain, row-pipelined encoder, histogram remap); the sequential weakest-precondition engine has no model of goroutines and cannot relate the two algorithms, so no contract within reach decides the property"

ALL = ["C%02d" % i for i in range(1, 21)]

def main():
    checks = []
    for pid in ALL:
        if pid not in CLAIMED:
            continue
        text, note, ref = CLAIMED[pid]; tech = TECH
        checks.append({
            "property_id": pid,
            "quick_cmd": f"bin/govc check -property {pid} -tier quick",
            "thorough_cmd": f"bin/govc check -property {pid} -tier thorough",
            "evidence_file": f"/verif/evidence/{pid}.json",
            "replay_cmd_template": "bin/govc replay {path}",
            "engine": "govc",
            "level_claimed": {"category": "proof", "text": text, "design_ref": ref},
            "level_note": note,
            "technique": tech,
        })
    na = []
    for pid in ALL:
        if pid in CLAIMED:
            continue
        reason = NOT_APPLICABLE.get(pid, "contracts for this property are not built yet in this tree; nothing is claimed (see DESIGN.md §1 for the plan)")
        na.append({"property_id": pid, "reason": reason})
    hooks_commits = subprocess.run(["git", "-C", "/repo", "log", "--format=%h %s", "--grep=^verif:"], capture_output=True, text=True).stdout.strip().split("\n")
    m = {
        "version": 1,
        "setup_cmd": "cd /verif/govc && GOFLAGS=-mod=mod GOPROXY=off go build -o ../bin/govc ./cmd/govc",
        "hooks": {
            "guard": "verif",
            "enable": "go build -tags verif (the checks load /repo with -tags=verif; the guarded files are comment-only contract files zz_contracts*_verif.go and spec functions zz_spec_verif.go)",
            "baseline_off_cmd": BASELINE_CMD,
            "source_commits": [c.split()[0] for c in hooks_commits if c],
            "add_only": True,
        },
        "engines": [{"name": "govc", "path": "/verif/govc", "serves_properties": sorted(CLAIMED), "kind_free_text": "home-made deductive verifier for Go: go/ssa -> guarded commands -> SMT-LIB (bit-vectors + arrays), z3 4.8.12 / z3 5.1.0 / cvc5 1.0.3 raced per obligation; contracts as //@ comments in build-tagged files of /repo"}],
        "checks": checks,
        "not_applicable": na,
        "notes": "Every check rebuilds the SSA of /repo's working tree and regenerates every verification condition on each run. expected_obligations.json lists, per property, the obligations that discharge on the reference tree (the claimed set); KNOWN_FINDINGS.txt lists repaired and known defects by obligation name.",
    }
    json.dump(m, open('/verif/MANIFEST.json', 'w'), indent=1)

main()
