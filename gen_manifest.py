#!/usr/bin/env python3
"""Regenerates MANIFEST.json from the table below (kept in one place so the
manifest stays valid while the set of claimed properties grows)."""
import json, subprocess

BASELINE_CMD = json.load(open('/root/.vp/BASELINE.json'))['cmd']

CLAIMED = {
 # id: (level text, level note, design ref, technique)
 "C05": ("Proof (SMT unsat for every generated obligation, all inputs, all loop iterations) that no index, slice, nil-dereference, division, make or explicit panic can occur and that every annotated loop terminates, in every function under contract of internal/container and mux (demux side). Byte strings, lengths and struct fields are fully symbolic; integers are exact bit-vectors. Functions outside the listed set are not covered; time/memory proportionality and goroutine deadlock are not decided.",
         "Trusted: go/ssa translation, the govc encoding, the SMT solvers, intrinsic axioms (copy/append/len), allocation succeeds, slices < 2^48 elements, append returns fresh memory. Abstracted calls and assumptions are listed in the evidence file.",
         "DESIGN.md §6 C05", "contract-based deductive verification: WP-style VC generation over go/ssa of the real code, contracts in //@ comments, obligations discharged by z3/cvc5"),
}

NOT_APPLICABLE = {
 "C10": "quantifies over goroutine interleavings; sequential function-by-function contracts and the available solvers cannot express or decide schedules, and no Go concurrency verifier is installed",
}

ALL = ["C%02d" % i for i in range(1, 21)]

def main():
    checks = []
    for pid in ALL:
        if pid not in CLAIMED:
            continue
        text, note, ref, tech = CLAIMED[pid]
        checks.append({
            "property_id": pid,
            "quick_cmd": f"bin/govc check -property {pid} -tier quick",
            "thorough_cmd": f"bin/govc check -property {pid} -tier thorough",
            "evidence_file": f"/verif/evidence/{pid}.json",
            "replay_cmd_template": "bin/govc replay {path}",
            "engine": "govc",
            "level_claimed": {"category": "proof", "text": text, "design_ref": ref},
            "level_note": note,
            "technique": tech,
        })
    na = []
    for pid in ALL:
        if pid in CLAIMED:
            continue
        reason = NOT_APPLICABLE.get(pid, "contracts for this property are not built yet in this tree; nothing is claimed (see DESIGN.md §1 for the plan)")
        na.append({"property_id": pid, "reason": reason})
    hooks_commits = subprocess.run(["git", "-C", "/repo", "log", "--format=%h %s", "--grep=^verif:"], capture_output=True, text=True).stdout.strip().split("\n")
    m = {
        "version": 1,
        "setup_cmd": "cd /verif/govc && GOFLAGS=-mod=mod GOPROXY=off go build -o ../bin/govc ./cmd/govc",
        "hooks": {
            "guard": "verif",
            "enable": "go build -tags verif (the checks load /repo with -tags=verif; the guarded files are comment-only contract files zz_contracts*_verif.go and spec functions zz_spec_verif.go)",
            "baseline_off_cmd": BASELINE_CMD,
            "source_commits": [c.split()[0] for c in hooks_commits if c],
            "add_only": True,
        },
        "engines": [{"name": "govc", "path": "/verif/govc", "serves_properties": sorted(CLAIMED), "kind_free_text": "home-made deductive verifier for Go: go/ssa -> guarded commands -> SMT-LIB (bit-vectors + arrays), z3 4.8.12 / z3 5.1.0 / cvc5 1.0.3 raced per obligation; contracts as //@ comments in build-tagged files of /repo"}],
        "checks": checks,
        "not_applicable": na,
        "notes": "Every check rebuilds the SSA of /repo's working tree and regenerates every verification condition on each run. expected_obligations.json lists, per property, the obligations that discharge on the reference tree (the claimed set); KNOWN_FINDINGS.txt lists repaired and known defects by obligation name.",
    }
    json.dump(m, open('/verif/MANIFEST.json', 'w'), indent=1)

main()
